package main

import (
	"encoding/json"
	"fmt"
	"os"
	"runtime/pprof"
	"sort"

	"pmc/internal/checks"
	"pmc/internal/instr"
)

func usage() {
	fmt.Fprintln(os.Stderr, "usage: pmc check <ID> [quick|thorough] | pmc replay <path> | pmc list")
	os.Exit(2)
}

func main() {
	if len(os.Args) < 2 {
		usage()
	}
	switch os.Args[1] {
	case "list":
		var ids []string
		for id := range checks.Registry {
			ids = append(ids, id)
		}
		sort.Strings(ids)
		for _, id := range ids {
			fmt.Println(id)
		}
	case "check":
		if len(os.Args) < 3 {
			usage()
		}
		tier := "quick"
		if len(os.Args) > 3 {
			tier = os.Args[3]
		}
		if t := os.Getenv("VERIF_TIER"); t != "" && len(os.Args) <= 3 {
			tier = t
		}
		c, ok := checks.Registry[os.Args[2]]
		if !ok {
			fmt.Fprintf(os.Stderr, "unknown check %s\n", os.Args[2])
			os.Exit(2)
		}
		if pf := os.Getenv("PMC_PROF"); pf != "" {
			f, _ := os.Create(pf)
			pprof.StartCPUProfile(f)
			code := c.Run(tier)
			pprof.StopCPUProfile()
			f.Close()
			os.Exit(code)
		}
		os.Exit(c.Run(tier))
	case "selftest":
		os.Exit(checks.Selftest())
	case "instr":
		res, err := instr.Instrument(os.Args[2], os.Args[3])
		if err != nil {
			fmt.Fprintln(os.Stderr, err)
			os.Exit(2)
		}
		b, _ := json.MarshalIndent(res, "", " ")
		fmt.Println(string(b))
	case "c17worker":
		checks.C17Worker(os.Args[2:])
	case "c18worker":
		checks.C18Worker(os.Args[2:])
	case "replay":
		if len(os.Args) < 3 {
			usage()
		}
		raw, err := os.ReadFile(os.Args[2])
		if err != nil {
			fmt.Fprintln(os.Stderr, err)
			os.Exit(2)
		}
		var doc struct {
			Property string `json:"property"`
		}
		json.Unmarshal(raw, &doc)
		if err := checks.ReplayFor(doc.Property)(raw); err != nil {
			fmt.Fprintln(os.Stderr, err)
			os.Exit(2)
		}
	default:
		usage()
	}
}
