//go:build verifsched

// Command sched is the map-iteration schedule explorer of C17. It is only
// built by the C17 check, with -tags verifsched and the -overlay that routes
// every range-over-map of the repository through verifsched.Keys.
package main

import (
	"encoding/json"
	"fmt"
	"os"

	"github.com/huderlem/poryscript/verifsched"

	"pmc/internal/checks"
	"pmc/internal/comp"
)

type point struct{ Site, N int }

// family of permutations tried at a choice point with n keys.
func family(n int) [][]int {
	id := make([]int, n)
	for i := range id {
		id[i] = i
	}
	if n <= 1 {
		return [][]int{id}
	}
	if n <= 4 {
		var out [][]int
		var rec func(cur []int, used []bool)
		rec = func(cur []int, used []bool) {
			if len(cur) == n {
				out = append(out, append([]int{}, cur...))
				return
			}
			for i := 0; i < n; i++ {
				if !used[i] {
					used[i] = true
					rec(append(cur, i), used)
					used[i] = false
				}
			}
		}
		rec(nil, make([]bool, n))
		return out // lexicographic: identity first
	}
	out := [][]int{id}
	rev := make([]int, n)
	for i := range rev {
		rev[i] = n - 1 - i
	}
	out = append(out, rev)
	for r := 1; r < n; r++ {
		p := make([]int, n)
		for i := range p {
			p[i] = (i + r) % n
		}
		out = append(out, p)
	}
	for t := 0; t+1 < n; t++ {
		p := append([]int{}, id...)
		p[t], p[t+1] = p[t+1], p[t]
		out = append(out, p)
	}
	return out
}

type execution struct {
	result  string
	points  []point
	choices []int
}

var diverged string

func run(c checks.SchedCase, prefix []int, expect []point) execution {
	var x execution
	verifsched.Hook = func(site, n int) []int {
		i := len(x.points)
		x.points = append(x.points, point{site, n})
		choice := 0
		if i < len(prefix) {
			choice = prefix[i]
			if i < len(expect) && expect[i] != (point{site, n}) {
				diverged = fmt.Sprintf("replay diverged at point %d: expected %v, met %v", i, expect[i], point{site, n})
			}
		}
		fam := family(n)
		if choice >= len(fam) {
			diverged = fmt.Sprintf("choice %d out of range at point %d (n=%d)", choice, i, n)
			choice = 0
		}
		x.choices = append(x.choices, choice)
		return fam[choice]
	}
	res := comp.Compile(c.Src, c.Opts)
	verifsched.Hook = nil
	switch {
	case res.Panic != "":
		x.result = "PANIC " + res.Panic[:min(len(res.Panic), 200)]
	case res.Err != nil:
		x.result = "ERROR " + res.Err.Error()
	default:
		x.result = res.Out
	}
	return x
}

type violation struct {
	Case     string  `json:"case"`
	Source   string  `json:"source"`
	Schedule []int   `json:"schedule"`
	Points   []point `json:"choice_points"`
	Baseline string  `json:"identity_result"`
	Got      string  `json:"result"`
}

type report struct {
	Cases        int           `json:"cases"`
	Executions   int           `json:"executions"`
	ChoicePoints int           `json:"choice_points_met"`
	Deviating    int           `json:"executions_with_deviation"`
	MaxPoints    int           `json:"max_choice_points_per_input"`
	SitesMet     map[int]int   `json:"sites_met"`
	Bound        int           `json:"deviation_bound"`
	ReplayAgree  int           `json:"replay_twice_agreements"`
	Violations   []violation   `json:"violations"`
	Error        string        `json:"harness_error,omitempty"`
	Samples      []interface{} `json:"samples"`
}

func main() {
	tier := os.Args[1]
	fontPath3 := os.Args[2]
	bound := 1
	if tier == "thorough" {
		bound = 2
	}
	rep := report{SitesMet: map[int]int{}, Bound: bound}
	for _, c := range checks.SchedCorpus(tier, fontPath3) {
		rep.Cases++
		base := run(c, nil, nil)
		again := run(c, nil, nil)
		if base.result != again.result {
			rep.Error = "identity schedule is not reproducible for case " + c.Name
			break
		}
		rep.ReplayAgree++
		rep.Executions += 2
		rep.ChoicePoints += len(base.points)
		if len(base.points) > rep.MaxPoints {
			rep.MaxPoints = len(base.points)
		}
		for _, p := range base.points {
			rep.SitesMet[p.Site]++
		}
		var explore func(prefix []int, pts []point, devs int)
		explore = func(prefix []int, pts []point, devs int) {
			x := run(c, prefix, pts)
			y := run(c, prefix, pts)
			rep.Executions += 2
			if devs > 0 {
				rep.Deviating++
			}
			if diverged != "" {
				rep.Error = diverged
				return
			}
			if x.result != y.result {
				rep.Error = fmt.Sprintf("schedule %v of case %s is not reproducible", prefix, c.Name)
				return
			}
			rep.ReplayAgree++
			if x.result != base.result && len(rep.Violations) < 20 {
				rep.Violations = append(rep.Violations, violation{c.Name, c.Src, append([]int{}, x.choices...), x.points, base.result, x.result})
			}
			if devs == 1 && len(prefix) > 0 && len(rep.Samples) < 4 {
				rep.Samples = append(rep.Samples, map[string]interface{}{"case": c.Name, "schedule": append([]int{}, x.choices...), "choice_points": x.points})
			}
			if devs >= bound {
				return
			}
			for i := len(prefix); i < len(x.points); i++ {
				fam := family(x.points[i].N)
				for alt := 1; alt < len(fam); alt++ {
					np := append(append([]int{}, x.choices[:i]...), alt)
					explore(np, x.points[:i+1], devs+1)
					if rep.Error != "" {
						return
					}
				}
			}
		}
		// the identity run is the root; expand its deviations
		for i := 0; i < len(base.points) && rep.Error == ""; i++ {
			fam := family(base.points[i].N)
			for alt := 1; alt < len(fam); alt++ {
				np := append(append([]int{}, base.choices[:i]...), alt)
				explore(np, base.points[:i+1], 1)
			}
		}
		if rep.Error != "" {
			break
		}
	}
	b, _ := json.Marshal(rep)
	fmt.Println(string(b))
}
