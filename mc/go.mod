module pmc

go 1.23

require github.com/huderlem/poryscript v0.0.0

replace github.com/huderlem/poryscript => /repo
