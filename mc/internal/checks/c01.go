package checks

import (
	"encoding/json"
	"fmt"
	"sync"
	"time"

	"pmc/internal/comp"
	"pmc/internal/harness"
	"pmc/internal/machine"
	"pmc/internal/model"
)

// C01 — structured control flow is lowered to gotos without changing behaviour.
// Explicit-state product exploration (lazy mode) of reference x emitted
// automaton for every program of exhaustively enumerated families.

func c01Families() []*model.Family {
	return []*model.Family{
		{Name: "general", LeafStyle: 1,
			Leaves: []model.SKind{model.SCmd, model.SEnd, model.SReturn, model.SLabel, model.SGoto, model.SBreak, model.SContinue},
			Shapes: []model.Shape{model.ShIf, model.ShIfElse, model.ShIfElif, model.ShIfElifElse, model.ShWhile, model.ShWhileInf, model.ShDoWhile, model.ShSwitchA, model.ShSwitchB}},
		{Name: "loops", NoAdjCmd: true,
			Leaves: []model.SKind{model.SCmd, model.SBreak, model.SContinue},
			Shapes: []model.Shape{model.ShIf, model.ShIfElse, model.ShWhile, model.ShWhileInf, model.ShDoWhile}},
		{Name: "labels", NoAdjCmd: true,
			Leaves: []model.SKind{model.SCmd, model.SEnd, model.SReturn, model.SLabel, model.SGoto, model.SGotoIf},
			Shapes: []model.Shape{model.ShIf, model.ShIfElse, model.ShWhile}},
		{Name: "loops+labels", NoAdjCmd: true, LeafStyle: 1,
			Leaves: []model.SKind{model.SCmd, model.SBreak, model.SLabel, model.SGoto},
			Shapes: []model.Shape{model.ShWhile, model.ShIf, model.ShDoWhile}},
	}
}

type famPlan struct {
	fam  *model.Family
	maxN int
}

// runFamilies enumerates every program of every family up to its bound and
// calls eval on each (program = shape x goto assignment).
func runFamilies(r *harness.Run, plans []famPlan, eval func(w int, fam *model.Family, n int, idx uint64, variant int, sc *model.Script)) {
	completed := map[string]int{}
	counts := map[string][]uint64{}
	for n := 1; ; n++ {
		any := false
		for _, pl := range plans {
			if n > pl.maxN {
				continue
			}
			any = true
			if r.Expired() {
				continue
			}
			fam := pl.fam
			total := fam.Count(n)
			counts[fam.Name] = append(counts[fam.Name], total)
			done := r.Parallel(total, func(w int, i uint64) {
				body := fam.Unrank(n, i)
				sl := fam.Assign(body, "")
				sc := &model.Script{Name: "S", Body: body}
				model.ForEachGotoAssignment(sl, "EXT", func(variant int) {
					eval(w, fam, n, i, variant, sc)
				})
			})
			if done {
				completed[fam.Name] = n
			}
		}
		if !any {
			break
		}
	}
	r.Set("completed_size_level_per_family", completed)
	r.Set("shapes_per_size_level", counts)
	for _, pl := range plans {
		if completed[pl.fam.Name] < pl.maxN {
			r.NotExhaustive(fmt.Sprintf("family %s completed n<=%d of planned n<=%d", pl.fam.Name, completed[pl.fam.Name], pl.maxN))
		}
	}
}

func init() {
	register(&Check{ID: "C01", Run: runC01, Replay: replayEngine})
}

func runC01(tier string) int {
	r := harness.NewRun("C01", "model_checking", tier, budget(tier, 45*time.Second, 25*time.Minute))
	r.HangLimit = 90 * time.Second // one case is one small program: a compilation that takes this long hangs
	fams := c01Families()
	var plans []famPlan
	if tier == "thorough" {
		plans = []famPlan{{fams[0], 5}, {fams[1], 7}, {fams[2], 6}, {fams[3], 6}}
	} else {
		plans = []famPlan{{fams[0], 4}, {fams[1], 5}, {fams[2], 5}, {fams[3], 5}}
	}
	var fpMu sync.Mutex
	fps := map[uint64]struct{}{}
	local := make([]map[uint64]struct{}, r.Workers)
	for i := range local {
		local[i] = map[uint64]struct{}{}
	}
	runFamilies(r, plans, func(w int, fam *model.Family, n int, idx uint64, variant int, sc *model.Script) {
		scripts := []*model.Script{sc}
		src := model.Print(scripts)
		r.Add("programs", 1)
		for _, opt := range []bool{true, false} {
			ok, rej, st, v, out := checkScripts(scripts, src, opt, machine.Lazy, nil)
			if !ok {
				r.Add("rejected_wellformed", 1)
				if r.Get("rejected_wellformed") <= 3 {
					r.Note("rejected well-formed program (%s): %q", rej, src)
				}
				continue
			}
			r.Add("evaluations", 1)
			addStats(r, st)
			if st.Reads > 0 && st.Events >= 2 {
				r.Add("nontrivial", 1)
			}
			local[w][st.Fingerprint] = struct{}{}
			if v != nil {
				ec := engineCase{Family: fam.Name, N: n, Index: idx, Variant: variant, Source: src, Optimize: opt, Entry: "S", Mode: "lazy",
					Expected: v.A.String(), Actual: v.B.String(), Env: v.Sigma, Trace: v.Trace, Output: out}
				r.Report(harness.Violation{
					Sig:     violationSig("C01", v) + c01Shape(sc),
					Summary: fmt.Sprintf("family=%s n=%d idx=%d variant=%d optimize=%v: %s\n  source: %q", fam.Name, n, idx, variant, opt, v, src),
					Replay:  ec,
					Recheck: func() bool { return recheckEngine(ec) },
				})
			} else if r.WantSample() && st.Reads > 1 {
				r.Sample(map[string]interface{}{"family": fam.Name, "n": n, "index": idx, "optimize": opt, "source": src, "product_states": st.States, "product_transitions": st.Transitions})
			}
		}
	})
	// Two scripts in one file: gotos of S may target a label in the middle of S2 and vice versa.
	if !r.Expired() {
		fam := c01Families()[2] // labels
		maxN := 4
		if tier == "thorough" {
			maxN = 5
		}
		for n := 1; n <= maxN && !r.Expired(); n++ {
			total := fam.Count(n)
			r.Parallel(total, func(w int, i uint64) {
				body := fam.Unrank(n, i)
				sl := fam.Assign(body, "")
				if len(sl.Gotos) == 0 {
					return
				}
				back := "EXT"
				if len(sl.Labels) > 0 {
					back = sl.Labels[0]
				}
				s2 := &model.Script{Name: "S2", Body: []model.Stmt{mcmd("a2"), {Kind: model.SLabel, Name: "X1"}, mcmd("b2"),
					{Kind: model.SIf, Arms: []model.Arm{{Cond: mflag("Q2"), Body: []model.Stmt{{Kind: model.SGoto, Name: back}}}}}, mcmd("e2")}}
				sc := &model.Script{Name: "S", Body: body}
				scripts := []*model.Script{sc, s2}
				model.ForEachGotoAssignmentTo(sl, []string{"X1", "S2", "EXT"}, func(variant int) {
					src := model.Print(scripts)
					r.Add("programs", 1)
					r.Add("two_script_programs", 1)
					for _, opt := range []bool{true, false} {
						ok, _, st, v, out := checkScripts(scripts, src, opt, machine.Lazy, nil)
						if !ok {
							r.Add("rejected_wellformed", 1)
							continue
						}
						r.Add("evaluations", 1)
						addStats(r, st)
						if st.Reads > 0 && st.Events >= 2 {
							r.Add("nontrivial", 1)
						}
						if v != nil {
							r.Report(harness.Violation{
								Sig:     violationSig("C01", v) + ":two-scripts",
								Summary: fmt.Sprintf("two scripts, labels n=%d idx=%d variant=%d optimize=%v: %s\n  source: %q", n, i, variant, opt, v, src),
								Replay:  map[string]interface{}{"source": src, "optimize": opt, "reference_next_event": v.A.String(), "emitted_next_event": v.B.String(), "observable_prefix": v.Trace, "emitted_assembly": out},
							})
						}
					}
				})
			})
		}
	}
	seqLen := 3
	if tier == "thorough" {
		seqLen = 4
	}
	if !r.Expired() {
		evalProg := func(w int, p engineProgram) {
			scripts := []*model.Script{p.Script}
			src := model.Print(scripts)
			r.Add("programs", 1)
			for _, opt := range []bool{true, false} {
				ok, _, st, v, out := checkScripts(scripts, src, opt, machine.Lazy, nil)
				if !ok {
					r.Add("rejected_wellformed", 1)
					continue
				}
				r.Add("evaluations", 1)
				addStats(r, st)
				if st.Reads > 0 && st.Events >= 2 {
					r.Add("nontrivial", 1)
				}
				local[w][st.Fingerprint] = struct{}{}
				if v != nil {
					sc := p.Script
					r.Report(harness.Violation{
						Sig:     violationSig("C01", v) + ":sequence",
						Summary: fmt.Sprintf("%s optimize=%v: %s\n  source: %q", p.Desc, opt, v, src),
						Replay:  map[string]interface{}{"desc": p.Desc, "source": src, "optimize": opt, "reference_next_event": v.A.String(), "emitted_next_event": v.B.String(), "observable_prefix": v.Trace, "environment_in_failing_phase": v.Sigma, "emitted_assembly": out},
						Recheck: func() bool {
							_, _, _, v2, _ := checkScripts([]*model.Script{sc}, src, opt, machine.Lazy, nil)
							return v2 != nil
						},
					})
				}
			}
		}
		// the sequence programs again with their body, every block, or single statements moved into the selected case of a
		// poryswitch (the reference model is the plain program): poryswitch is part of how control flow is written
		evalWrapped := func(w int, p engineProgram) {
			scripts := []*model.Script{p.Script}
			plain := model.Print(scripts)
			o := &comp.Opts{Switches: map[string]string{"PV": "SEL"}}
			for wi, src := range c12Wrappings(plain) {
				r.Add("programs", 1)
				r.Add("poryswitch_wrapped_programs", 1)
				for _, opt := range []bool{true, false} {
					ok, rej, st, v, out := checkScripts(scripts, src, opt, machine.Lazy, o)
					if !ok {
						r.Report(harness.Violation{Sig: fmt.Sprintf("C01:wrapped%d:rejected:%s", wi, firstWords(rej, 5)), Summary: fmt.Sprintf("%s: rejected once moved into a poryswitch case (wrapping %d): %s\n  source: %q", p.Desc, wi, rej, clip(src, 500)), Replay: map[string]interface{}{"source": src, "error": rej}})
						continue
					}
					r.Add("evaluations", 1)
					addStats(r, st)
					if st.Reads > 0 && st.Events >= 2 {
						r.Add("nontrivial", 1)
					}
					if v != nil {
						r.Report(harness.Violation{Sig: violationSig("C01", v) + fmt.Sprintf(":wrapped%d", wi), Summary: fmt.Sprintf("%s inside a poryswitch case (wrapping %d) optimize=%v: %s\n  source: %q", p.Desc, wi, opt, v, clip(src, 500)),
							Replay:  map[string]interface{}{"desc": p.Desc, "source": src, "optimize": opt, "switches": o.Switches, "reference_next_event": v.A.String(), "emitted_next_event": v.B.String(), "observable_prefix": v.Trace, "emitted_assembly": out},
							Recheck: func() bool { _, _, _, v2, _ := checkScripts(scripts, src, opt, machine.Lazy, o); return v2 != nil }})
					}
				}
			}
		}
		// AutoVar commands in conditions are script commands too: every shape in which nothing else depends on the condition
		// (empty bodies, trailing elifs, empty else), loops, and switches on an AutoVar command that contain other switches
		autoProgs := c01AutoVarPrograms()
		r.Parallel(uint64(len(autoProgs)), func(w int, i uint64) {
			p := autoProgs[i]
			scripts := []*model.Script{p.Script}
			src := model.Print(scripts)
			r.Add("programs", 1)
			r.Add("autovar_programs", 1)
			for _, opt := range []bool{true, false} {
				ok, rej, st, v, out := checkScripts(scripts, src, opt, machine.Lazy, &comp.Opts{Cmd: autoCfg})
				if !ok {
					r.Report(harness.Violation{Sig: "C01:autovar:rejected:" + firstWords(rej, 5), Summary: fmt.Sprintf("%s rejected: %s\n  source: %q", p.Desc, rej, src), Replay: map[string]interface{}{"source": src, "error": rej}})
					continue
				}
				r.Add("evaluations", 1)
				r.Add("nontrivial", 1)
				addStats(r, st)
				if v != nil {
					r.Report(harness.Violation{Sig: violationSig("C01", v) + ":autovar", Summary: fmt.Sprintf("%s optimize=%v: %s\n  source: %q", p.Desc, opt, v, src),
						Replay: map[string]interface{}{"desc": p.Desc, "source": src, "optimize": opt, "reference_next_event": v.A.String(), "emitted_next_event": v.B.String(), "observable_prefix": v.Trace, "emitted_assembly": out}})
				}
			}
		})
		// ... and the same shapes with their body, every block, or one statement moved into a poryswitch case (a switch on an
		// AutoVar command is two statements - the command and the switch - also where a colon case takes "one statement")
		r.Parallel(uint64(len(autoProgs)), func(w int, i uint64) {
			p := autoProgs[i]
			scripts := []*model.Script{p.Script}
			o := &comp.Opts{Cmd: autoCfg, Switches: map[string]string{"PV": "SEL"}}
			for wi, src := range c12Wrappings(model.Print(scripts)) {
				r.Add("programs", 1)
				r.Add("autovar_programs_wrapped", 1)
				for _, opt := range []bool{true, false} {
					ok, rej, st, v, out := checkScripts(scripts, src, opt, machine.Lazy, o)
					if !ok {
						r.Report(harness.Violation{Sig: fmt.Sprintf("C01:autovar:wrapped%d:rejected:%s", wi, firstWords(rej, 5)), Summary: fmt.Sprintf("%s rejected once moved into a poryswitch case (wrapping %d): %s\n  source: %q", p.Desc, wi, rej, src), Replay: map[string]interface{}{"source": src, "error": rej}})
						continue
					}
					r.Add("evaluations", 1)
					r.Add("nontrivial", 1)
					addStats(r, st)
					if v != nil {
						r.Report(harness.Violation{Sig: violationSig("C01", v) + fmt.Sprintf(":autovar:wrapped%d", wi), Summary: fmt.Sprintf("%s inside a poryswitch case (wrapping %d) optimize=%v: %s\n  source: %q", p.Desc, wi, opt, v, src),
							Replay: map[string]interface{}{"desc": p.Desc, "source": src, "optimize": opt, "switches": o.Switches, "reference_next_event": v.A.String(), "emitted_next_event": v.B.String(), "observable_prefix": v.Trace, "emitted_assembly": out}})
					}
				}
			}
		})
		// labels in dead code (after end / return / break / goto / an infinite loop), directly and inside every kind of block
		dead := deadLabelPrograms()
		r.Parallel(uint64(len(dead)), func(w int, i uint64) {
			evalProg(w, engineProgram{Desc: fmt.Sprintf("dead-label program %d", i), Script: dead[i]})
		})
		r.Set("dead_label_programs", len(dead))
		forEachSequenceProgram(r, seqLen-1, evalWrapped)
		forEachSequenceProgram(r, seqLen, evalProg)
		if !r.Expired() {
			forEachScaledProgram(r, evalProg)
			huge := hugePrograms(tier)
			if !r.Parallel(uint64(len(huge)), func(w int, i uint64) { evalProg(w, huge[i]) }) {
				r.NotExhaustive("huge programs not completed")
			}
			r.Set("huge_programs", len(huge))
		}
	}
	for _, m := range local {
		fpMu.Lock()
		for k := range m {
			fps[k] = struct{}{}
		}
		fpMu.Unlock()
	}
	r.Set("distinct_outcome_fingerprints", len(fps))
	r.Set("traces_validated_against_impl", r.Get("transitions"))
	r.Assume("abstract machine = control semantics of the Gen-3 script macros (goto, goto_if_*, compare, checktrainerflag, switch/case, return, end)",
		"reference lowering (model/lower.go) = meaning of the README for if/elif/else, while, do...while, break, continue, switch, labels, goto",
		"operands are distinct per leaf, so every path is feasible (a superset of programs that reuse operands)")
	return r.Finish(r.Get("evaluations"), r.Get("nontrivial"),
		"every script body with exactly n nodes of each family (count+unrank, bijective, so cases are distinct by construction) x every goto assignment, plus every sequence of <= L statement templates (29 templates covering every construct), plus 13 control-flow shapes whose conditions and switch operands are AutoVar commands (empty bodies, trailing elifs, loops, switches containing switches), alone and moved into poryswitch cases, plus the dead-label programs (a label and gotos to it, directly and inside every block kind, after every kind of dead position), plus the sequences of <= L-1 templates with their body, every block, or one statement moved into the selected case of a poryswitch, plus scaled programs (every template repeated K times, every block kind nested K deep, switches with K cases, for every K up to the scale bounds in the coverage; single scripts with 350, 1100 and 22000 - thorough also 3000 and 45000 - copies of four templates), plus two-script files in which gotos cross between the scripts (targets: own labels, a label in the middle of the other script, the other script, an external name), x optimize on/off; each case = full product exploration reference x emitted, all game states closed by a visited set; non-trivial = at least one environment branch point and >= 2 distinct observable events")
}

// c01Shape is a coarse shape tag for findings matching.
func c01Shape(sc *model.Script) string {
	labelAfterBreak := false
	var scan func(b []model.Stmt)
	scan = func(b []model.Stmt) {
		seenJump := false
		for i := range b {
			s := &b[i]
			if seenJump && s.Kind == model.SLabel {
				labelAfterBreak = true
			}
			if s.Kind == model.SBreak || s.Kind == model.SContinue {
				seenJump = true
			}
			for j := range s.Arms {
				scan(s.Arms[j].Body)
			}
			scan(s.Else)
			scan(s.Body)
			for j := range s.Cases {
				scan(s.Cases[j].Body)
			}
		}
	}
	scan(sc.Body)
	if labelAfterBreak {
		return "+label_after_break"
	}
	return ""
}

func recheckEngine(ec engineCase) bool {
	// Rebuild from the source text through the same path: the model is rebuilt by unranking.
	sc := rebuildCase(ec)
	if sc == nil {
		return true
	}
	mode := machine.Lazy
	if ec.Mode == "lockstep" {
		mode = machine.Lockstep
	}
	_, _, _, v, _ := checkScripts([]*model.Script{sc}, ec.Source, ec.Optimize, mode, nil)
	return v != nil
}

func rebuildCase(ec engineCase) *model.Script {
	for _, fam := range append(c01Families(), extraFamilies()...) {
		if fam.Name != ec.Family {
			continue
		}
		body := fam.Unrank(ec.N, ec.Index)
		sl := fam.Assign(body, "")
		sc := &model.Script{Name: "S", Body: body}
		var out *model.Script
		model.ForEachGotoAssignment(sl, "EXT", func(variant int) {
			if variant == ec.Variant && out == nil {
				model.Print([]*model.Script{sc})
				out = cloneScript(sc)
			}
		})
		return out
	}
	return nil
}

func cloneScript(sc *model.Script) *model.Script {
	b, _ := json.Marshal(sc)
	var out model.Script
	json.Unmarshal(b, &out)
	return &out
}

func extraFamilies() []*model.Family { return nil }

func replayEngine(raw json.RawMessage) error {
	var doc struct {
		Case engineCase `json:"case"`
	}
	if err := json.Unmarshal(raw, &doc); err != nil {
		return err
	}
	ec := doc.Case
	sc := rebuildCase(ec)
	if sc == nil {
		return fmt.Errorf("cannot rebuild case for family %q", ec.Family)
	}
	fmt.Printf("source:\n%s\n", ec.Source)
	mode := machine.Lazy
	if ec.Mode == "lockstep" {
		mode = machine.Lockstep
	}
	ok, rej, _, v, out := checkScripts([]*model.Script{sc}, ec.Source, ec.Optimize, mode, nil)
	fmt.Printf("emitted (optimize=%v):\n%s\n", ec.Optimize, out)
	if !ok {
		fmt.Printf("rejected: %s\n", rej)
		return nil
	}
	if v != nil {
		fmt.Printf("STILL FAILS: %s\n", v)
	} else {
		fmt.Println("passes now")
	}
	return nil
}

// c01AutoVarPrograms: control-flow shapes whose conditions are AutoVar commands (3 command kinds x 3 comparison forms).
func c01AutoVarPrograms() []engineProgram {
	var out []engineProgram
	fl := func(n string) *model.Cond { return mflag(n) }
	for _, kind := range []int{0, 2, 3} {
		for _, form := range []int{0, 1, 3} {
			auto := func(i int) *model.Cond { return &model.Cond{Kind: model.CLeaf, Leaf: autoLeaf(kind, form, i)} }
			op := func(i int) *model.Leaf { lf := autoLeaf(kind, 0, i); lf.Src = lf.AutoSrc; return lf }
			ifBreak := model.Stmt{Kind: model.SIf, Arms: []model.Arm{{Cond: fl("B1"), Body: []model.Stmt{{Kind: model.SBreak}}}}}
			shapes := [][]model.Stmt{
				{{Kind: model.SIf, Arms: []model.Arm{{Cond: fl("F1"), Body: []model.Stmt{mcmd("c1")}}, {Cond: auto(1), Body: nil}}}},
				{{Kind: model.SIf, Arms: []model.Arm{{Cond: fl("F1"), Body: []model.Stmt{mcmd("c1")}}, {Cond: auto(1), Body: nil}}, HasElse: true, Else: nil}},
				{{Kind: model.SIf, Arms: []model.Arm{{Cond: fl("F1"), Body: []model.Stmt{mcmd("c1")}}, {Cond: fl("G1"), Body: nil}, {Cond: auto(1), Body: nil}}}},
				{{Kind: model.SIf, Arms: []model.Arm{{Cond: auto(1), Body: nil}}}},
				{{Kind: model.SIf, Arms: []model.Arm{{Cond: fl("F1"), Body: nil}, {Cond: auto(1), Body: nil}}}},
				{{Kind: model.SIf, Arms: []model.Arm{{Cond: fl("F1"), Body: nil}, {Cond: auto(1), Body: nil}}, HasElse: true, Else: nil}},
				{{Kind: model.SIf, Arms: []model.Arm{{Cond: &model.Cond{Kind: model.CAnd, L: fl("F1"), R: auto(1)}, Body: nil}}, HasElse: true, Else: nil}},
				{{Kind: model.SWhile, Cond: auto(1), Body: []model.Stmt{mcmd("c1"), ifBreak}}},
				{{Kind: model.SDoWhile, Cond: auto(1), Body: []model.Stmt{mcmd("c1"), ifBreak}}},
				{{Kind: model.SIf, Arms: []model.Arm{{Cond: fl("F1"), Body: []model.Stmt{mcmd("c1")}}}, HasElse: true, Else: []model.Stmt{{Kind: model.SIf, Arms: []model.Arm{{Cond: auto(1), Body: []model.Stmt{mcmd("c2")}}}}}}},
				{{Kind: model.SSwitch, Operand: op(1), Cases: []model.Case{
					{Val: 1, Body: []model.Stmt{{Kind: model.SSwitch, Operand: mvar("N1"), Cases: []model.Case{{Val: 5, Body: []model.Stmt{mcmd("c2")}}}}}},
					{Val: 2, Body: []model.Stmt{mcmd("c3")}}}}},
				{{Kind: model.SSwitch, Operand: op(1), Cases: []model.Case{
					{Val: 1, Body: []model.Stmt{mcmd("c1")}},
					{Default: true, Body: []model.Stmt{{Kind: model.SSwitch, Operand: op(2), Cases: []model.Case{{Val: 3, Body: []model.Stmt{mcmd("c2")}}}}, mcmd("c4")}}}}},
				{{Kind: model.SWhile, Cond: fl("W1"), Body: []model.Stmt{{Kind: model.SSwitch, Operand: op(1), Cases: []model.Case{
					{Val: 1, Body: []model.Stmt{{Kind: model.SIf, Arms: []model.Arm{{Cond: auto(2), Body: nil}}}, mcmd("c1")}}}}}}},
			}
			for si, body := range shapes {
				full := append(append([]model.Stmt{mcmd("a")}, body...), mcmd("z"))
				out = append(out, engineProgram{Desc: fmt.Sprintf("AutoVar shape %d kind=%d form=%d", si, kind, form), Script: &model.Script{Name: "S", Body: full}})
			}
		}
	}
	return out
}
