package checks

import (
	"fmt"
	"time"

	"pmc/internal/comp"
	"pmc/internal/harness"
	"pmc/internal/machine"
	"pmc/internal/model"
)

// C02 — conditions branch on the value of the written boolean expression.
// Lockstep product exploration: every operand read is an observable event, so
// grouping, polarity, operator, evaluation order and short-circuiting are all
// compared against the generator's own expression tree.

const numCondPositions = 13

// c02PosList: the condition positions of C02 (position 13 is C11's; 100 and 101 are the hosts other than a script statement)
var c02PosList = []int{0, 1, 2, 3, 4, 5, 6, 7, 8, 9, 10, 11, 12, 14, 15, 16, 17, 18, 19, 100, 101}

// condProgram places cond in condition position pos.
func condProgram(cond *model.Cond, pos int) *model.Script {
	cmd := func(n string) model.Stmt { return model.Stmt{Kind: model.SCmd, Name: n} }
	guard := func(k int) *model.Cond {
		n := fmt.Sprintf("G%d", k)
		return &model.Cond{Kind: model.CLeaf, Leaf: &model.Leaf{Kind: machine.KFlag, Name: n, Src: "flag(" + n + ")", WantSet: true}}
	}
	var st model.Stmt
	switch pos {
	case 0: // if
		st = model.Stmt{Kind: model.SIf, Arms: []model.Arm{{Cond: cond, Body: []model.Stmt{cmd("t")}}}}
	case 1: // if ... else
		st = model.Stmt{Kind: model.SIf, Arms: []model.Arm{{Cond: cond, Body: []model.Stmt{cmd("t")}}}, HasElse: true, Else: []model.Stmt{cmd("f")}}
	case 2: // first elif, no else
		st = model.Stmt{Kind: model.SIf, Arms: []model.Arm{{Cond: guard(1), Body: []model.Stmt{cmd("g1")}}, {Cond: cond, Body: []model.Stmt{cmd("t")}}}}
	case 3: // first elif of two, with else
		st = model.Stmt{Kind: model.SIf, Arms: []model.Arm{{Cond: guard(1), Body: []model.Stmt{cmd("g1")}}, {Cond: cond, Body: []model.Stmt{cmd("t")}}, {Cond: guard(2), Body: []model.Stmt{cmd("g2")}}}, HasElse: true, Else: []model.Stmt{cmd("f")}}
	case 4: // second (last) elif, with else
		st = model.Stmt{Kind: model.SIf, Arms: []model.Arm{{Cond: guard(1), Body: []model.Stmt{cmd("g1")}}, {Cond: guard(2), Body: []model.Stmt{cmd("g2")}}, {Cond: cond, Body: []model.Stmt{cmd("t")}}}, HasElse: true, Else: []model.Stmt{cmd("f")}}
	case 5: // while
		st = model.Stmt{Kind: model.SWhile, Cond: cond, Body: []model.Stmt{cmd("t")}}
	case 10: // the first operand test of the condition is repeated as the elif condition
		st = model.Stmt{Kind: model.SIf, Arms: []model.Arm{{Cond: cond, Body: []model.Stmt{cmd("t")}}, {Cond: firstLeafCopy(cond), Body: []model.Stmt{cmd("g1")}}}, HasElse: true, Else: []model.Stmt{cmd("f")}}
	case 11: // ... or stands first in the if condition, with the whole condition as elif (same operand, same value, tested again)
		st = model.Stmt{Kind: model.SIf, Arms: []model.Arm{{Cond: &model.Cond{Kind: model.CAnd, L: firstLeafCopy(cond), R: guard(1)}, Body: []model.Stmt{cmd("g1")}}, {Cond: cond, Body: []model.Stmt{cmd("t")}}}, HasElse: true, Else: []model.Stmt{cmd("f")}}
	case 12: // ... or is tested again inside the loop body
		st = model.Stmt{Kind: model.SWhile, Cond: cond, Body: []model.Stmt{{Kind: model.SIf, Arms: []model.Arm{{Cond: firstLeafCopy(cond), Body: []model.Stmt{cmd("t")}}}}, cmd("u")}}
	case 13: // (C11 only) last elif with an empty body and no else: nothing depends on the condition, but an AutoVar command in it still runs
		st = model.Stmt{Kind: model.SIf, Arms: []model.Arm{{Cond: guard(1), Body: []model.Stmt{cmd("g1")}}, {Cond: cond, Body: nil}}}
	case 14, 15, 16, 17: // the body is a single jump-like statement (where a compiler is tempted to fold test and jump into one command): call(EXT), goto(EXT), return, end
		body := map[int]model.Stmt{14: {Kind: model.SCmd, Name: "call(EXT)", Out: "call EXT"}, 15: {Kind: model.SGoto, Name: "EXT"}, 16: {Kind: model.SReturn}, 17: {Kind: model.SEnd}}[pos]
		st = model.Stmt{Kind: model.SIf, Arms: []model.Arm{{Cond: cond, Body: []model.Stmt{body}}}}
	case 18: // last elif whose body is nothing but another if, with an else: when the elif condition holds and the inner one does not, nothing runs
		st = model.Stmt{Kind: model.SIf, Arms: []model.Arm{{Cond: guard(1), Body: []model.Stmt{cmd("g1")}}, {Cond: cond, Body: []model.Stmt{{Kind: model.SIf, Arms: []model.Arm{{Cond: guard(2), Body: []model.Stmt{cmd("t")}}}}}}}, HasElse: true, Else: []model.Stmt{cmd("f")}}
	case 19: // ... the same without elif before it
		st = model.Stmt{Kind: model.SIf, Arms: []model.Arm{{Cond: cond, Body: []model.Stmt{{Kind: model.SIf, Arms: []model.Arm{{Cond: guard(2), Body: []model.Stmt{cmd("t")}}}}}}}, HasElse: true, Else: []model.Stmt{cmd("f")}}
	case 7: // middle elif with an empty body, no else: the condition still guards the later elif
		st = model.Stmt{Kind: model.SIf, Arms: []model.Arm{{Cond: guard(1), Body: []model.Stmt{cmd("g1")}}, {Cond: cond, Body: nil}, {Cond: guard(2), Body: []model.Stmt{cmd("g2")}}}}
	case 8: // if with an empty body, then elif
		st = model.Stmt{Kind: model.SIf, Arms: []model.Arm{{Cond: cond, Body: nil}, {Cond: guard(1), Body: []model.Stmt{cmd("g1")}}}}
	case 9: // last elif with an empty body, with else
		st = model.Stmt{Kind: model.SIf, Arms: []model.Arm{{Cond: guard(1), Body: []model.Stmt{cmd("g1")}}, {Cond: cond, Body: nil}}, HasElse: true, Else: []model.Stmt{cmd("f")}}
	default: // do ... while
		st = model.Stmt{Kind: model.SDoWhile, Cond: cond, Body: []model.Stmt{cmd("t")}}
	}
	return &model.Script{Name: "S", Body: []model.Stmt{cmd("a"), st, cmd("z")}}
}

type condCase struct {
	K        int                 `json:"leaves"`
	Shape    int                 `json:"shape_index"`
	Deco     []uint8             `json:"decoration"`
	Forms    []int               `json:"leaf_forms"`
	Pos      int                 `json:"position"`
	Shared   bool                `json:"shared_operand"`
	Source   string              `json:"source"`
	Optimize bool                `json:"optimize"`
	Expected string              `json:"reference_next_event"`
	Actual   string              `json:"emitted_next_event"`
	Env      string              `json:"environment"`
	Trace    []machine.TraceStep `json:"observable_prefix"`
	Output   string              `json:"emitted_assembly"`
}

func init() {
	register(&Check{ID: "C02", Run: runC02})
}

// c02Sig classifies a failing expression by its syntactic shape.
func c02Sig(v *machine.Violation, cond *model.Cond) string {
	return violationSig("C02", v) + ":" + condShapeTag(cond)
}

// condShapeTag: operator skeleton of the expression, e.g. "((a&b)&c)|d".
func condShapeTag(c *model.Cond) string {
	switch c.Kind {
	case model.CLeaf:
		return "x"
	case model.CParen:
		return "(" + condShapeTag(c.L) + ")"
	case model.CNot:
		return "!" + "(" + condShapeTag(c.L) + ")"
	case model.CAnd:
		return "[" + condShapeTag(c.L) + "&" + condShapeTag(c.R) + "]"
	default:
		return "[" + condShapeTag(c.L) + "|" + condShapeTag(c.R) + "]"
	}
}

type c02Plan struct {
	k, maxDeco int
	formSets   [][]int // each entry: leaf form per leaf index (cycled) — nil means "all assignments"
	allForms   bool
}

func runC02(tier string) int {
	r := harness.NewRun("C02", "model_checking", tier, budget(tier, 45*time.Second, 12*time.Minute))
	type job struct {
		k       int
		shape   int
		tree    *model.Cond
		forms   []int
		shared  bool
		maxDeco int
	}
	var jobs []job
	rot := func(k, off int) []int {
		f := make([]int, k)
		for i := range f {
			f[i] = (off + i*7) % model.NumLeafForms
		}
		return f
	}
	maxK, decoFor := 4, map[int]int{1: 1, 2: 3, 3: 3, 4: 2}
	offsets := map[int][]int{3: {0, 1, 2, 3, 4, 5, 6, 7, 8, 9, 10, 11, 12, 13, 14, 15, 16, 17, 18, 19, 20, 21, 22, 23, 24, 25, 26, 27, 28, 29, 30, 31, 32, 33}, 4: {0, 9, 17}, 5: {0, 17}, 6: {4}}
	if tier == "thorough" {
		maxK = 6
		decoFor = map[int]int{1: 1, 2: 3, 3: 5, 4: 3, 5: 2, 6: 2}
		offsets[4] = []int{0, 3, 9, 13, 17, 22, 26}
		offsets[5] = []int{0, 9, 17, 22}
		offsets[6] = []int{4, 19}
	}
	for k := 1; k <= maxK; k++ {
		shapes := model.CondShapes(k)
		for si, t := range shapes {
			if k <= 2 {
				// all leaf-form assignments
				n := 1
				for i := 0; i < k; i++ {
					n *= model.NumLeafForms
				}
				for a := 0; a < n; a++ {
					f := make([]int, k)
					x := a
					for i := range f {
						f[i] = x % model.NumLeafForms
						x /= model.NumLeafForms
					}
					jobs = append(jobs, job{k, si, t, f, false, decoFor[k]})
				}
			} else {
				for _, off := range offsets[k] {
					jobs = append(jobs, job{k, si, t, rot(k, off), false, decoFor[k]})
				}
			}
			if k >= 2 && k <= 3 {
				// shared operand: all leaves test the same var with different constants / operators
				for _, off := range []int{18, 21, 24} {
					f := make([]int, k)
					for i := range f {
						f[i] = 18 + (off-18+i*2)%12
					}
					jobs = append(jobs, job{k, si, t, f, true, 1})
				}
				// the same test written plainly and with value(): six operators
				for op := 0; op < 6; op++ {
					f := make([]int, k)
					for i := range f {
						f[i] = 100 + op
					}
					jobs = append(jobs, job{k, si, t, f, true, 1})
				}
				// the same var compared with constants that are textual prefixes of one another (1, 10, 100), operators rotating
				for op := 0; op < 6; op++ {
					f := make([]int, k)
					for i := range f {
						f[i] = 200 + (op+i)%6
					}
					jobs = append(jobs, job{k, si, t, f, true, 1})
				}
			}
		}
	}
	r.Set("jobs", len(jobs))
	completedK := 0
	doneAll := r.Parallel(uint64(len(jobs)), func(w int, ji uint64) {
		j := jobs[ji]
		m := model.CountNodes(j.tree)
		model.ForEachDeco(m, j.maxDeco, func(deco []uint8) {
			cond := model.Decorate(j.tree, deco, func(i int) *model.Leaf {
				if j.shared {
					lf := model.LeafForm(j.forms[i], 1)
					lf.Const = 2 + i
					// re-render the constant in the source text
					lf = sharedLeaf(j.forms[i], i)
					return lf
				}
				return model.LeafForm(j.forms[i], i+1)
			})
			for _, pos := range c02PosList {
				sc := condProgram(cond, pos%100)
				scripts := []*model.Script{sc}
				src := model.Print(scripts)
				if pos >= 100 {
					// hosts other than a script statement: the second inline script of a mapscripts statement / the second
					// inline entry of a table, after an inline script that branches itself (if / else form of the condition)
					sc = condProgram(cond, 1)
					body := model.PrintBody(sc.Body, 3)
					first := "\t\t\tif (flag(G0)) {\n\t\t\t\tg0\n\t\t\t}\n\t\t\twhile (var(GV) < 2) {\n\t\t\t\tg1\n\t\t\t}\n"
					if pos == 100 {
						sc.Name = "M_T1"
						src = "mapscripts M {\n\tT0 {\n" + first + "\t}\n\tT1 {\n" + body + "\t}\n}\n"
					} else {
						sc.Name = "M_T0_1"
						src = "mapscripts M {\n\tT0 [\n\t\tVAR_A, 0 {\n" + first + "\t\t}\n\t\tVAR_A, 1 {\n" + body + "\t\t}\n\t]\n}\n"
					}
					scripts = []*model.Script{sc}
				}
				r.Add("expressions_x_positions", 1)
				for _, opt := range []bool{true, false} {
					ok, rej, st, v, out := checkScripts(scripts, src, opt, machine.Lockstep, nil)
					if !ok {
						r.Add("rejected_wellformed", 1)
						if r.Get("rejected_wellformed") <= 5 {
							r.Note("rejected well-formed program (%s): %q", rej, src)
						}
						r.Report(harness.Violation{Sig: "C02:rejected:" + firstWords(rej, 6), Summary: fmt.Sprintf("well-formed condition rejected: %s\n  source: %q", rej, src),
							Replay: map[string]interface{}{"source": src, "error": rej}})
						continue
					}
					r.Add("evaluations", 1)
					addStats(r, st)
					if j.k >= 2 {
						r.Add("nontrivial", 1)
					}
					if v != nil {
						cc := condCase{K: j.k, Shape: j.shape, Deco: append([]uint8{}, deco...), Forms: j.forms, Pos: pos, Shared: j.shared, Source: src, Optimize: opt,
							Expected: v.A.String(), Actual: v.B.String(), Env: v.Sigma, Trace: v.Trace, Output: out}
						scc := sc
						r.Report(harness.Violation{
							Sig:     c02Sig(v, cond),
							Summary: fmt.Sprintf("k=%d pos=%d optimize=%v expr=%q: %s", j.k, pos, opt, model.CondString(cond), v),
							Replay:  cc,
							Recheck: func() bool {
								_, _, _, v2, _ := checkScripts([]*model.Script{scc}, src, opt, machine.Lockstep, nil)
								return v2 != nil
							},
						})
					} else if r.WantSample() && j.k >= 3 && pos == 1 {
						r.Sample(map[string]interface{}{"expression": model.CondString(cond), "position": pos, "optimize": opt, "product_states": st.States, "product_transitions": st.Transitions})
					}
				}
			}
		})
	})
	// AutoVar leaves ("anywhere a var() operator can be used"): every tree with <= 2 leaves, one of them an AutoVar command
	// leaf (fixed var name / argument position), in the if/else and while positions, in files that define constants named
	// like the configured result vars (the leaf tests the var the command writes, whatever constants exist)
	autoDone := r.Parallel(uint64(6*3*numAutoForms*2), func(w int, idx uint64) {
		pos := []int{1, 5, 14, 15, 16, 17}[idx%6]
		x := idx / 6
		form := int(x % numAutoForms)
		x /= numAutoForms
		kind := []int{0, 2, 3}[x%3]
		shape := int(x / 3) // 0: single leaf, 1: flag && auto
		var cond *model.Cond
		auto := &model.Cond{Kind: model.CLeaf, Leaf: autoLeaf(kind, form, 2)}
		if shape == 0 {
			cond = auto
		} else {
			cond = &model.Cond{Kind: model.COr, L: &model.Cond{Kind: model.CAnd, L: &model.Cond{Kind: model.CLeaf, Leaf: model.LeafForm(0, 1)}, R: auto}, R: &model.Cond{Kind: model.CLeaf, Leaf: model.LeafForm(20, 3)}}
		}
		sc := condProgram(cond, pos)
		scripts := []*model.Script{sc}
		src := "const VAR_RESULT = VAR_ELSE\nconst avfix = other\n" + model.Print(scripts) // (the var argument of an argument-position command is an ordinary command argument: no constant is named like it)
		r.Add("autovar_leaf_programs", 1)
		for _, opt := range []bool{true, false} {
			ok, rej, st, v, out := checkScripts(scripts, src, opt, machine.Lockstep, &comp.Opts{Cmd: autoCfg})
			if !ok {
				r.Report(harness.Violation{Sig: "C02:rejected:" + firstWords(rej, 6), Summary: fmt.Sprintf("well-formed AutoVar condition rejected: %s\n  source: %q", rej, src), Replay: map[string]interface{}{"source": src, "error": rej}})
				continue
			}
			r.Add("evaluations", 1)
			r.Add("nontrivial", 1)
			addStats(r, st)
			if v != nil {
				r.Report(harness.Violation{Sig: violationSig("C02", v) + ":autovar-leaf", Summary: fmt.Sprintf("AutoVar leaf kind=%d form=%d pos=%d optimize=%v: %s\n  source: %q", kind, form, pos, opt, v, src),
					Replay: condCase{K: shape + 1, Pos: pos, Source: src, Optimize: opt, Expected: v.A.String(), Actual: v.B.String(), Env: v.Sigma, Trace: v.Trace, Output: out}})
			}
		}
	})
	if !autoDone {
		r.NotExhaustive("AutoVar leaf programs not completed")
	}
	// the size dimension: chains of K leaves for every K up to a bound, in five operator patterns
	maxLeaves := 40
	if tier == "thorough" {
		maxLeaves = 120
	}
	chainDone := r.Parallel(uint64(maxLeaves)*5*3, func(w int, idx uint64) {
		pos := []int{0, 1, 5}[idx%3]
		x := idx / 3
		pat := int(x % 5)
		k := int(x/5) + maxK + 1
		leaf := func(i int) *model.Cond {
			return &model.Cond{Kind: model.CLeaf, Leaf: model.LeafForm((i*7+pat)%model.NumLeafForms, i+1)}
		}
		bin := func(kind model.CKind, l, rr *model.Cond) *model.Cond { return &model.Cond{Kind: kind, L: l, R: rr} }
		var cond *model.Cond
		switch pat {
		case 0, 1:
			kind := model.CAnd
			if pat == 1 {
				kind = model.COr
			}
			cond = leaf(0)
			for i := 1; i < k; i++ {
				cond = bin(kind, cond, leaf(i))
			}
		case 2: // a && b || c && d || ...
			for i := 0; i+1 < k; i += 2 {
				pair := bin(model.CAnd, leaf(i), leaf(i+1))
				if cond == nil {
					cond = pair
				} else {
					cond = bin(model.COr, cond, pair)
				}
			}
		case 3: // (a || b) && (c || d) && ...
			for i := 0; i+1 < k; i += 2 {
				pair := &model.Cond{Kind: model.CParen, L: bin(model.COr, leaf(i), leaf(i+1))}
				if cond == nil {
					cond = pair
				} else {
					cond = bin(model.CAnd, cond, pair)
				}
			}
		default: // !(a && b) || !(c && d) || ...
			for i := 0; i+1 < k; i += 2 {
				pair := &model.Cond{Kind: model.CNot, L: &model.Cond{Kind: model.CParen, L: bin(model.CAnd, leaf(i), leaf(i+1))}}
				if cond == nil {
					cond = pair
				} else {
					cond = bin(model.COr, cond, pair)
				}
			}
		}
		sc := condProgram(cond, pos)
		scripts := []*model.Script{sc}
		src := model.Print(scripts)
		r.Add("long_chains", 1)
		for _, opt := range []bool{true, false} {
			ok, rej, st, v, out := checkScripts(scripts, src, opt, machine.Lockstep, nil)
			if !ok {
				r.Report(harness.Violation{Sig: "C02:rejected:" + firstWords(rej, 6), Summary: fmt.Sprintf("well-formed condition of %d leaves rejected: %s", k, rej), Replay: map[string]interface{}{"source": src, "error": rej}})
				continue
			}
			r.Add("evaluations", 1)
			r.Add("nontrivial", 1)
			addStats(r, st)
			if v != nil {
				r.Report(harness.Violation{Sig: violationSig("C02", v) + fmt.Sprintf(":chain-pattern%d", pat), Summary: fmt.Sprintf("chain of %d leaves, pattern %d, pos=%d optimize=%v: %s", k, pat, pos, opt, v),
					Replay: condCase{K: k, Pos: pos, Source: src, Optimize: opt, Expected: v.A.String(), Actual: v.B.String(), Env: v.Sigma, Trace: v.Trace, Output: out}})
			}
		}
	})
	if !chainDone {
		r.NotExhaustive("long chains not completed")
	}
	r.Set("long_chain_max_leaves", maxLeaves+maxK)
	if doneAll {
		completedK = maxK
	} else {
		r.NotExhaustive("job list not completed")
	}
	r.Set("max_leaves_completed", completedK)
	r.Set("leaf_forms", model.NumLeafForms)
	r.Set("condition_positions", numCondPositions)
	r.Set("traces_validated_against_impl", r.Get("transitions"))
	r.Assume("the generator's own expression tree is the reference (no parsing on the oracle side); '!' > '&&' > '||', left to right, short-circuit",
		"lockstep: each operand read (which flag/var/trainer, strict or not) is an observable event; the environment answers with the operand's value and each side applies its own relation")
	return r.Finish(r.Get("evaluations"), r.Get("nontrivial"),
		"every And/Or tree with k leaves x decorations (redundant parentheses / negations on any node, bounded count) x leaf-form assignments (all 34 forms - var against TRUE / FALSE included - exhaustively for k<=2, rotations beyond, shared-operand variants for k<=3 incl. the same var test written once plainly and once with value(), and one var compared with 1, 10 and 100) x 19 condition positions in a script (four of them an if whose body is a single call / goto / return / end, two an if / elif whose body is nothing but another if, before an else), plus the if/else position in the second inline script of a mapscripts statement and in the second inline entry of a table (if, if/else, elif positions, while, do...while, branches with an empty body, and positions in which the first operand test of the expression is tested again in a neighbouring condition) x optimize on/off; plus AutoVar command leaves (3 command kinds x 9 forms, alone and inside an &&/|| expression) in files whose constants are named like the configured result vars; plus chains of K leaves for every K up to the bound in the coverage in 5 operator patterns; each case explored in lockstep over all operand values; non-trivial = at least 2 leaves")
}

// firstLeafCopy returns a fresh leaf condition equal to the first operand test evaluated by c (polarity as written in the leaf).
func firstLeafCopy(c *model.Cond) *model.Cond {
	for c.Kind != model.CLeaf {
		c = c.L
	}
	lf := *c.Leaf
	return &model.Cond{Kind: model.CLeaf, Leaf: &lf}
}

func sharedLeaf(form, i int) *model.Leaf {
	if form >= 100 {
		// same var, same operator, same constant; odd leaves compare with value(): only the strictness differs
		lf := model.LeafForm(20+(form-100)%6+6*(i%2), 1)
		syms := map[machine.Rel]string{machine.RelEQ: "==", machine.RelNE: "!=", machine.RelLT: "<", machine.RelLE: "<=", machine.RelGT: ">", machine.RelGE: ">="}
		lf.Const = 3
		if lf.Strict {
			lf.Src = fmt.Sprintf("var(V1) %s value(3)", syms[lf.Rel])
		} else {
			lf.Src = fmt.Sprintf("var(V1) %s 3", syms[lf.Rel])
		}
		return lf
	}
	if form >= 200 {
		// same var, operators rotating, constants whose decimal spellings are prefixes of one another
		op := (form - 200) % 6
		lf := model.LeafForm(18+op, 1)
		syms := []string{"==", "!=", "<", "<=", ">", ">="}
		lf.Const = []int{1, 10, 100, 12}[i%4]
		lf.Src = fmt.Sprintf("var(V1) %s %d", syms[op], lf.Const)
		return lf
	}
	lf := model.LeafForm(form, 1)
	// give each leaf its own constant on the shared var V1
	syms := map[machine.Rel]string{machine.RelEQ: "==", machine.RelNE: "!=", machine.RelLT: "<", machine.RelLE: "<=", machine.RelGT: ">", machine.RelGE: ">="}
	lf.Const = 2 + i
	if lf.Strict {
		lf.Src = fmt.Sprintf("var(V1) %s value(%d)", syms[lf.Rel], lf.Const)
	} else {
		lf.Src = fmt.Sprintf("var(V1) %s %d", syms[lf.Rel], lf.Const)
	}
	return lf
}

func firstWords(s string, n int) string {
	out, words := []byte{}, 0
	for i := 0; i < len(s); i++ {
		if s[i] == ' ' {
			words++
			if words == n {
				break
			}
			out = append(out, '_')
			continue
		}
		out = append(out, s[i])
	}
	return string(out)
}
