package checks

import (
	"fmt"
	"strings"
	"time"

	"pmc/internal/comp"
	"pmc/internal/harness"
	"pmc/internal/machine"
	"pmc/internal/model"
)

// C03 — switch selects exactly the matching body (shared, empty, default cases).
// Lazy product exploration against the reference switch rule for every case
// list up to a length bound x every body assignment x every context.

func mcmd(n string) model.Stmt { return model.Stmt{Kind: model.SCmd, Name: n} }

func mflag(n string) *model.Cond {
	return &model.Cond{Kind: model.CLeaf, Leaf: &model.Leaf{Kind: machine.KFlag, Name: n, Src: "flag(" + n + ")", WantSet: true}}
}

func mvar(n string) *model.Leaf {
	return &model.Leaf{Kind: machine.KVar, Name: n, Src: "var(" + n + ")"}
}

// constants used by the context in which case values are constant expressions
const c03Consts = "const KV = 10\nconst KW = 7\n"

const (
	c03Bodies     = 9
	c03BodiesLoop = 15
	c03Contexts   = 10
)

// c03Alphabet: the body kinds used for case lists of n entries (all 13 up to n = 3, reduced beyond).
func c03Alphabet(n int) []int {
	switch {
	case n <= 3:
		return []int{0, 1, 2, 3, 4, 5, 6, 7, 8, 9, 10, 11, 12, 13, 14}
	case n == 4:
		return []int{0, 1, 2, 3, 4, 7, 9, 11, 13, 14}
	case n == 5:
		return []int{0, 1, 2, 3, 4, 9, 11, 12}
	}
	return []int{0, 1, 2, 3, 4}
}

// c03Body builds body kind b for entry i. pre collects statements that must be
// placed before the switch (gotos into labelled bodies).
func c03Body(b, i int, pre *[]model.Stmt) []model.Stmt {
	c := fmt.Sprintf("c%d", i)
	switch b {
	case 0:
		return nil
	case 1:
		return []model.Stmt{mcmd(c)}
	case 2:
		return []model.Stmt{mcmd(c), {Kind: model.SBreak}}
	case 3:
		return []model.Stmt{{Kind: model.SBreak}, mcmd("dead" + c)}
	case 4:
		return []model.Stmt{{Kind: model.SIf, Arms: []model.Arm{{Cond: mflag(fmt.Sprintf("F%d", i)), Body: []model.Stmt{{Kind: model.SBreak}}}}}, mcmd(c)}
	case 5:
		return []model.Stmt{{Kind: model.SWhile, Cond: mflag(fmt.Sprintf("F%d", i)), Body: []model.Stmt{mcmd(c), {Kind: model.SBreak}}}, mcmd("e" + c)}
	case 6:
		return []model.Stmt{{Kind: model.SSwitch, Operand: mvar(fmt.Sprintf("N%d", i)), Cases: []model.Case{
			{Val: 7, Body: []model.Stmt{mcmd(c), {Kind: model.SBreak}}},
			{Default: true, Body: []model.Stmt{mcmd("d" + c)}}}}, mcmd("e" + c)}
	case 7:
		l := fmt.Sprintf("L%d", i)
		*pre = append(*pre, model.Stmt{Kind: model.SIf, Arms: []model.Arm{{Cond: mflag(fmt.Sprintf("G%d", i)), Body: []model.Stmt{{Kind: model.SGoto, Name: l}}}}})
		return []model.Stmt{{Kind: model.SLabel, Name: l}, mcmd(c)}
	case 8:
		return []model.Stmt{mcmd(c), {Kind: model.SEnd}}
	case 14: // the whole body is an if around one command: bodies of this kind differ only inside the compound statement
		return []model.Stmt{{Kind: model.SIf, Arms: []model.Arm{{Cond: mflag(fmt.Sprintf("F%d", i)), Body: []model.Stmt{mcmd(c)}}}}}
	case 13: // the whole body is a label that a goto before the switch jumps to
		l := fmt.Sprintf("L%d", i)
		*pre = append(*pre, model.Stmt{Kind: model.SIf, Arms: []model.Arm{{Cond: mflag(fmt.Sprintf("G%d", i)), Body: []model.Stmt{{Kind: model.SGoto, Name: l}}}}})
		return []model.Stmt{{Kind: model.SLabel, Name: l}}
	case 12: // the whole body is an if with an empty block: a body that does nothing is still a body (no sharing)
		return []model.Stmt{{Kind: model.SIf, Arms: []model.Arm{{Cond: mflag(fmt.Sprintf("F%d", i)), Body: nil}}}}
	case 11: // the whole body is a break: the case does nothing (it does not share the next case's body the way an empty one does)
		return []model.Stmt{{Kind: model.SBreak}}
	case 10: // the body ends in a hand-written conditional jump (when the flag is unset the body ends like any other)
		return []model.Stmt{mcmd(c), {Kind: model.SGotoIf, Name: "EXT", Flag: fmt.Sprintf("J%d", i), WantSet: true}}
	default: // 9: only in loop contexts
		return []model.Stmt{{Kind: model.SIf, Arms: []model.Arm{{Cond: mflag(fmt.Sprintf("F%d", i)), Body: []model.Stmt{{Kind: model.SContinue}}}}}, mcmd(c)}
	}
}

func c03InLoop(ctx int) bool { return ctx == 2 || ctx == 3 || ctx == 6 }

// c03Program builds the script for (default position, bodies, context).
// defPos == n means no default.
func c03Program(n, defPos int, bodies []int, ctx int) *model.Script {
	var pre []model.Stmt
	sw := model.Stmt{Kind: model.SSwitch, Operand: mvar("X")}
	val := 0
	for i := 0; i < n; i++ {
		body := c03Body(bodies[i], i, &pre)
		if i == defPos {
			sw.Cases = append(sw.Cases, model.Case{Default: true, Body: body})
		} else {
			val++
			sw.Cases = append(sw.Cases, model.Case{Val: val, Body: body})
		}
	}
	var body []model.Stmt
	switch ctx {
	case 0:
		body = append(pre, sw)
	case 1:
		body = append(append([]model.Stmt{mcmd("a")}, pre...), sw, mcmd("z"))
	case 2:
		body = append(pre, model.Stmt{Kind: model.SWhile, Cond: mflag("LC"), Body: []model.Stmt{mcmd("a"), sw, mcmd("z")}}, mcmd("zz"))
	case 3:
		body = append(pre, model.Stmt{Kind: model.SDoWhile, Cond: mflag("LC"), Body: []model.Stmt{sw, mcmd("z")}})
	case 4:
		outer := model.Stmt{Kind: model.SSwitch, Operand: mvar("O"), Cases: []model.Case{{Val: 1, Body: []model.Stmt{sw, mcmd("z")}}, {Val: 2, Body: []model.Stmt{mcmd("y")}}}}
		body = append(pre, outer, mcmd("zz"))
	case 5:
		body = append(append([]model.Stmt{mcmd("a")}, pre...), sw)
	case 6:
		body = append(pre, model.Stmt{Kind: model.SWhileInf, Body: []model.Stmt{sw}})
	case 8: // the switch and a plain return close a nested block
		body = append(pre, model.Stmt{Kind: model.SIf, Arms: []model.Arm{{Cond: mflag("GC"), Body: []model.Stmt{sw, {Kind: model.SReturn}}}}}, mcmd("zz"))
	case 9: // ... or a case body of another switch
		outer := model.Stmt{Kind: model.SSwitch, Operand: mvar("O"), Cases: []model.Case{{Val: 1, Body: []model.Stmt{sw, {Kind: model.SReturn}}}, {Val: 2, Body: []model.Stmt{mcmd("y")}}}}
		body = append(pre, outer, mcmd("zz"))
	default:
		// case values written as constant expressions (the file defines const KV = 10): KV, KV + 1, ( KV ) * 2, ...
		for i := range sw.Cases {
			cs := &sw.Cases[i]
			if cs.Default {
				continue
			}
			switch cs.Val % 3 {
			case 1:
				cs.Src, cs.Val = fmt.Sprintf("KV + %d", cs.Val), 10+cs.Val
			case 2:
				cs.Src, cs.Val = fmt.Sprintf("( KV ) * %d", cs.Val), 10*cs.Val
			default:
				cs.Src, cs.Val = fmt.Sprintf("%d + KV + KW", cs.Val), cs.Val+10+7
			}
		}
		body = append(append([]model.Stmt{mcmd("a")}, pre...), sw, mcmd("z"))
	}
	return &model.Script{Name: "S", Body: body}
}

func c03Sig(v *machine.Violation, n, defPos int, bodies []int) string {
	// Shape predicates for findings matching.
	tag := ""
	if defPos < n {
		trailingEmptyAfterDefault := false
		allEmptyAfter := true
		for i := defPos + 1; i < n; i++ {
			if bodies[i] != 0 {
				allEmptyAfter = false
			}
		}
		if defPos < n-1 && allEmptyAfter {
			trailingEmptyAfterDefault = true
		}
		if trailingEmptyAfterDefault && bodies[defPos] != 0 {
			tag += "+default_body_then_trailing_empty"
		}
		if bodies[defPos] == 0 && !allEmptyAfter {
			tag += "+default_shares_later_body"
		}
	}
	return violationSig("C03", v) + tag
}

type c03Case struct {
	N           int                 `json:"entries"`
	DefPos      int                 `json:"default_position"`
	Bodies      []int               `json:"bodies"`
	Ctx         int                 `json:"context"`
	Source      string              `json:"source"`
	Optimize    bool                `json:"optimize"`
	LineMarkers bool                `json:"line_markers,omitempty"`
	Expected    string              `json:"reference_next_event"`
	Actual      string              `json:"emitted_next_event"`
	Env         string              `json:"environment_in_failing_phase"`
	Trace       []machine.TraceStep `json:"observable_prefix"`
	Output      string              `json:"emitted_assembly"`
}

func init() { register(&Check{ID: "C03", Run: runC03}) }

func runC03(tier string) int {
	r := harness.NewRun("C03", "model_checking", tier, budget(tier, 45*time.Second, 12*time.Minute))
	r.HangLimit = 90 * time.Second // one case is one small program: a compilation that takes this long hangs
	maxN := 4
	if tier == "thorough" {
		maxN = 6
	}
	completed := 0
	for n := 1; n <= maxN && !r.Expired(); n++ {
		// thorough n=6: reduced body alphabet {empty, cmd, cmd+break, break+dead, if-break}
		alphabet := c03Alphabet(n)
		nb := len(alphabet)
		pow := uint64(1)
		for i := 0; i < n; i++ {
			pow *= uint64(nb)
		}
		total := uint64(n+1) * pow * c03Contexts
		done := r.Parallel(total, func(w int, idx uint64) {
			ctx := int(idx % c03Contexts)
			x := idx / c03Contexts
			defPos := int(x % uint64(n+1))
			x /= uint64(n + 1)
			bodies := make([]int, n)
			for i := range bodies {
				bodies[i] = alphabet[x%uint64(nb)]
				x /= uint64(nb)
				if bodies[i] == 9 && !c03InLoop(ctx) {
					return // 'continue' bodies only exist in loop contexts
				}
			}
			sc := c03Program(n, defPos, bodies, ctx)
			scripts := []*model.Script{sc}
			src := c03Consts + model.Print(scripts)
			r.Add("programs", 1)
			for _, opt := range []bool{true, false} {
				ok, rej, st, v, out := checkScripts(scripts, src, opt, machine.Lazy, nil)
				if !ok {
					r.Add("rejected_wellformed", 1)
					r.Report(harness.Violation{Sig: "C03:rejected:" + firstWords(rej, 6), Summary: fmt.Sprintf("well-formed switch rejected: %s\n  source: %q", rej, src), Replay: map[string]interface{}{"source": src, "error": rej}})
					continue
				}
				r.Add("evaluations", 1)
				addStats(r, st)
				if n >= 2 && st.Events >= 3 {
					r.Add("nontrivial", 1)
				}
				if v != nil {
					cc := c03Case{N: n, DefPos: defPos, Bodies: bodies, Ctx: ctx, Source: src, Optimize: opt, Expected: v.A.String(), Actual: v.B.String(), Env: v.Sigma, Trace: v.Trace, Output: out}
					r.Report(harness.Violation{
						Sig:     c03Sig(v, n, defPos, bodies),
						Summary: fmt.Sprintf("entries=%d default@%d bodies=%v ctx=%d optimize=%v: %s\n  source: %q", n, defPos, bodies, ctx, opt, v, src),
						Replay:  cc,
						Recheck: func() bool {
							sc2 := c03Program(n, defPos, bodies, ctx)
							_, _, _, v2, _ := checkScripts([]*model.Script{sc2}, c03Consts+model.Print([]*model.Script{sc2}), opt, machine.Lazy, nil)
							return v2 != nil
						},
					})
				} else if r.WantSample() && n >= 3 && ctx == 2 {
					r.Sample(map[string]interface{}{"source": src, "optimize": opt, "product_states": st.States, "product_transitions": st.Transitions})
				}
				// the same program written on one source line and compiled with line markers: same behaviour required
				if v == nil {
					one := oneLine(src)
					lm := &comp.Opts{LineMarkers: true, Path: "m.pory"}
					res := comp.Compile(one, comp.Opts{Optimize: opt, LineMarkers: true, Path: "m.pory"})
					if res.Err == nil && res.Panic == "" && dropMarkerLines(res.Out) == out {
						r.Add("one_line_with_markers_identical", 1)
					} else {
						r.Add("one_line_with_markers_explored", 1)
						ok2, rej2, st2, v2, out2 := checkScripts(scripts, one, opt, machine.Lazy, lm)
						if !ok2 {
							r.Report(harness.Violation{Sig: "C03:rejected-one-line:" + firstWords(rej2, 6), Summary: fmt.Sprintf("switch rejected when written on one line with line markers: %s\n  source: %q", rej2, one), Replay: map[string]interface{}{"source": one, "error": rej2, "line_markers": true}})
						} else if v2 != nil {
							addStats(r, st2)
							cc := c03Case{N: n, DefPos: defPos, Bodies: bodies, Ctx: ctx, Source: one, Optimize: opt, LineMarkers: true, Expected: v2.A.String(), Actual: v2.B.String(), Env: v2.Sigma, Trace: v2.Trace, Output: out2}
							r.Report(harness.Violation{
								Sig:     c03Sig(v2, n, defPos, bodies) + "+linemarkers",
								Summary: fmt.Sprintf("entries=%d default@%d bodies=%v ctx=%d optimize=%v, one-line source with line markers: %s\n  source: %q", n, defPos, bodies, ctx, opt, v2, one),
								Replay:  cc,
								Recheck: func() bool {
									_, _, _, v3, _ := checkScripts(scripts, one, opt, machine.Lazy, lm)
									return v3 != nil
								},
							})
						}
					}
				}
			}
		})
		if done {
			completed = n
		}
	}
	// the switch as the statement of a poryswitch case (colon and brace form, selected directly and through '_'), with a
	// var operand and with an AutoVar command operand (whose command must run before the switch), for every case list
	// of length <= 2
	pswN := 2
	if tier == "thorough" {
		pswN = 3
	}
	for n := 1; n <= pswN && !r.Expired(); n++ {
		pow := uint64(1)
		for i := 0; i < n; i++ {
			pow *= c03Bodies
		}
		total := uint64(n+1) * pow * 4 * 3
		r.Parallel(total, func(w int, idx uint64) {
			form := int(idx % 4)
			x := idx / 4
			operand := int(x % 3)
			x /= 3
			defPos := int(x % uint64(n+1))
			x /= uint64(n + 1)
			bodies := make([]int, n)
			for i := range bodies {
				bodies[i] = int(x % c03Bodies)
				x /= c03Bodies
			}
			sc := c03Program(n, defPos, bodies, 1)
			for i := range sc.Body {
				if sc.Body[i].Kind == model.SSwitch && operand > 0 {
					lf := autoLeaf([]int{0, 0, 2}[operand], 0, 1)
					lf.Src = lf.AutoSrc
					sc.Body[i].Operand = lf
				}
			}
			plain := model.Print([]*model.Script{sc})
			lines := strings.Split(plain, "\n")
			from, to := -1, -1
			for i, l := range lines {
				if from < 0 && strings.HasPrefix(l, "\tswitch (") {
					from = i
				} else if from >= 0 && l == "\t}" {
					to = i
					break
				}
			}
			if from < 0 || to < 0 {
				return
			}
			stmt := append([]string{}, lines[from:to+1]...)
			var wrapped []string
			switch form {
			case 0:
				stmt[0] = "\t\tSEL: " + strings.TrimLeft(stmt[0], "\t")
				wrapped = append(append([]string{"\tporyswitch(PV) {"}, stmt...), "\t\t_: other", "\t}")
			case 1:
				wrapped = append(append([]string{"\tporyswitch(PV) {", "\t\tSEL {"}, stmt...), "\t\t}", "\t\t_ { other }", "\t}")
			case 2:
				stmt[0] = "\t\t_: " + strings.TrimLeft(stmt[0], "\t")
				wrapped = append(append([]string{"\tporyswitch(PV) {", "\t\tNOPE: other"}, stmt...), "\t}")
			default:
				wrapped = append(append([]string{"\tporyswitch(PV) {", "\t\tNOPE { other }", "\t\t_ {"}, stmt...), "\t\t}", "\t}")
			}
			src := c03Consts + strings.Join(append(append(append([]string{}, lines[:from]...), wrapped...), lines[to+1:]...), "\n")
			scripts := []*model.Script{sc}
			o := &comp.Opts{Cmd: autoCfg, Switches: map[string]string{"PV": "SEL"}}
			r.Add("programs", 1)
			r.Add("switch_in_poryswitch_case_programs", 1)
			for _, opt := range []bool{true, false} {
				ok, rej, st, v, out := checkScripts(scripts, src, opt, machine.Lazy, o)
				if !ok {
					r.Report(harness.Violation{Sig: "C03:rejected-in-poryswitch:" + firstWords(rej, 6), Summary: fmt.Sprintf("switch inside a poryswitch case rejected: %s\n  source: %q", rej, src), Replay: map[string]interface{}{"source": src, "error": rej}})
					continue
				}
				r.Add("evaluations", 1)
				r.Add("nontrivial", 1)
				addStats(r, st)
				if v != nil {
					r.Report(harness.Violation{Sig: c03Sig(v, n, defPos, bodies) + fmt.Sprintf("+poryswitch-form%d", form), Summary: fmt.Sprintf("entries=%d default@%d bodies=%v inside poryswitch form %d, operand kind %d, optimize=%v: %s\n  source: %q", n, defPos, bodies, form, operand, opt, v, src),
						Replay:  c03Case{N: n, DefPos: defPos, Bodies: bodies, Ctx: 1, Source: src, Optimize: opt, Expected: v.A.String(), Actual: v.B.String(), Env: v.Sigma, Trace: v.Trace, Output: out},
						Recheck: func() bool { _, _, _, v2, _ := checkScripts(scripts, src, opt, machine.Lazy, o); return v2 != nil }})
				}
			}
		})
	}
	// the size dimension: switches with K cases (all with bodies / every third without / with a default) for every K
	// up to the scale bound, and switches nested K deep
	var scaled []engineProgram
	for _, p := range scaledPrograms(tier) {
		mixedSwitch := strings.HasPrefix(p.Desc, "mixed nesting") && (strings.HasSuffix(p.Desc, "core 4") || strings.ContainsAny(p.Desc[:strings.Index(p.Desc, "]")], "78"))
		if mixedSwitch || strings.Contains(p.Desc, "switch with") || strings.Contains(p.Desc, "block kind 7 ") || strings.Contains(p.Desc, "block kind 8 ") {
			scaled = append(scaled, p)
		}
	}
	// ... and the dead-label programs (statements after a break that are reached through a label: in switch cases, in ifs
	// inside cases whose body goes on, in shared bodies)
	for i, sc := range deadLabelPrograms() {
		scaled = append(scaled, engineProgram{Desc: fmt.Sprintf("dead-label program %d", i), Script: sc})
	}
	scaledDone := r.Parallel(uint64(len(scaled)), func(w int, i uint64) {
		p := scaled[i]
		scripts := []*model.Script{p.Script}
		src := model.Print(scripts)
		r.Add("programs", 1)
		r.Add("scaled_programs", 1)
		for _, opt := range []bool{true, false} {
			ok, rej, st, v, out := checkScripts(scripts, src, opt, machine.Lazy, nil)
			if !ok {
				r.Report(harness.Violation{Sig: "C03:rejected:" + firstWords(rej, 6), Summary: fmt.Sprintf("%s rejected: %s", p.Desc, rej), Replay: map[string]interface{}{"source": src, "error": rej}})
				continue
			}
			r.Add("evaluations", 1)
			r.Add("nontrivial", 1)
			addStats(r, st)
			if v != nil {
				r.Report(harness.Violation{Sig: violationSig("C03", v) + ":scaled", Summary: fmt.Sprintf("%s optimize=%v: %s", p.Desc, opt, v), Replay: map[string]interface{}{"desc": p.Desc, "source": src, "optimize": opt, "reference_next_event": v.A.String(), "emitted_next_event": v.B.String(), "observable_prefix": v.Trace, "emitted_assembly": out}})
			}
		}
	})
	if !scaledDone {
		r.NotExhaustive("scaled switch programs not completed")
	}
	// every 'break' (and 'continue') of the dead-label programs and of the case lists of length <= 2 written as the selected
	// case of a poryswitch (brace form, colon form, selected through '_'): the program means the same; in particular a break
	// may be followed by further statements of the case body, which a label makes reachable
	var brk []engineProgram
	for i, sc := range deadLabelPrograms() {
		brk = append(brk, engineProgram{Desc: fmt.Sprintf("dead-label program %d", i), Script: sc})
	}
	for n := 1; n <= 2; n++ {
		pow := 1
		for i := 0; i < n; i++ {
			pow *= c03BodiesLoop
		}
		for x := 0; x < (n+1)*pow*c03Contexts; x++ {
			ctx, y := x%c03Contexts, x/c03Contexts
			if ctx == 7 {
				continue
			}
			defPos := y % (n + 1)
			y /= n + 1
			bodies := make([]int, n)
			valid := true
			for i := range bodies {
				bodies[i] = y % c03BodiesLoop
				y /= c03BodiesLoop
				valid = valid && (bodies[i] != 9 || c03InLoop(ctx))
			}
			if valid {
				brk = append(brk, engineProgram{Desc: fmt.Sprintf("case list n=%d default=%d bodies=%v ctx=%d", n, defPos, bodies, ctx), Script: c03Program(n, defPos, bodies, ctx)})
			}
		}
	}
	brkDone := r.Parallel(uint64(len(brk))*4, func(w int, idx uint64) {
		p, form := brk[idx/4], int(idx%4)
		scripts := []*model.Script{p.Script}
		src, nrep := wrapJumpsInPoryswitch(model.Print(scripts), form)
		if nrep == 0 {
			return
		}
		r.Add("programs", 1)
		r.Add("break_in_poryswitch_programs", 1)
		o := comp.Opts{Switches: map[string]string{"PV": "SEL"}}
		for _, opt := range []bool{true, false} {
			ok, rej, st, v, out := checkScripts(scripts, src, opt, machine.Lazy, &o)
			if !ok {
				r.Report(harness.Violation{Sig: "C03:break-in-poryswitch:rejected:" + firstWords(rej, 6), Summary: fmt.Sprintf("%s with its break / continue statements inside poryswitch cases (form %d) rejected: %s\n  source: %q", p.Desc, form, rej, src), Replay: map[string]interface{}{"source": src, "switches": o.Switches, "error": rej}})
				continue
			}
			r.Add("evaluations", 1)
			r.Add("nontrivial", 1)
			addStats(r, st)
			if v != nil {
				r.Report(harness.Violation{Sig: violationSig("C03", v) + ":break-in-poryswitch", Summary: fmt.Sprintf("%s with its break / continue statements inside poryswitch cases (form %d) optimize=%v: %s", p.Desc, form, opt, v), Replay: map[string]interface{}{"desc": p.Desc, "source": src, "switches": o.Switches, "optimize": opt, "reference_next_event": v.A.String(), "emitted_next_event": v.B.String(), "observable_prefix": v.Trace, "emitted_assembly": out}})
			}
		}
	})
	if !brkDone {
		r.NotExhaustive("break-in-poryswitch programs not completed")
	}
	if completed < maxN {
		r.NotExhaustive(fmt.Sprintf("completed case lists of length <= %d of planned <= %d", completed, maxN))
	}
	r.Set("max_entries_completed", completed)
	r.Set("contexts", c03Contexts)
	r.Set("traces_validated_against_impl", r.Get("transitions"))
	r.Assume("reference switch rule: a body-less entry shares the next entry that has a body; trailing body-less entries go to the statement after the switch; default runs iff no case value matches; bodies never fall through; break leaves the switch",
		"var domain = every case value, its neighbours and 0 (always contains a non-matching value)")
	return r.Finish(r.Get("evaluations"), r.Get("nontrivial"),
		"every case list of length n (default at any position or absent) x every assignment of bodies from a 15-body alphabet (a body that is only an if around a command, only a jumped-to label, only an if with an empty block, a body that is only a break, a body ending in a hand-written goto_if_set, empty, cmd, cmd+break, break+dead tail, if-break, while-with-break, nested switch, labelled body with goto into it, cmd+end, if-continue in loops; all 15 kinds up to n=3, 10 at n=4, 8 at n=5, 5 beyond) x 10 contexts (alone, first/middle/last, in while, in do-while, in another switch, in infinite while, with case values written as constant expressions, followed by a plain return at the end of an if block or of another switch's case body) x optimize on/off, each also written on a single source line and compiled with line markers (explored again whenever the marker-stripped output differs); plus every case list of length <= 2 (thorough 3) as the statement of a poryswitch case (4 forms) with a var and with AutoVar command operands; plus the dead-label programs (labelled statements after a break in cases, also inside an if whose case body goes on); plus the dead-label programs and all case lists of length <= 2 with every break / closing continue written as the selected case of a poryswitch (3 forms) or preceded by a poryswitch whose selected case is empty (form 3); plus switches with K cases and switches nested K deep for every K up to the scale bounds; non-trivial = >= 2 entries and >= 3 distinct observable events")
}

// oneLine rewrites a generated source so that every statement sits on one line
// (const definitions keep their own lines: a const value ends at the newline).
func oneLine(src string) string {
	lines := strings.Split(src, "\n")
	var head, body []string
	for _, l := range lines {
		t := strings.TrimSpace(l)
		if t == "" {
			continue
		}
		if len(body) == 0 && strings.HasPrefix(t, "const ") {
			head = append(head, t)
		} else {
			body = append(body, t)
		}
	}
	out := strings.Join(head, "\n")
	if out != "" {
		out += "\n"
	}
	return out + strings.Join(body, " ") + "\n"
}

func dropMarkerLines(out string) string {
	var sb strings.Builder
	for _, l := range strings.SplitAfter(out, "\n") {
		if strings.HasPrefix(l, "# ") {
			continue
		}
		sb.WriteString(l)
	}
	return sb.String()
}

// wrapJumpsInPoryswitch rewrites every line that is exactly 'break' (or a 'continue' that closes its block) as a poryswitch on PV
// whose selected case (compiled with PV=SEL) is that statement. form 0: brace case, 1: colon case, 2: selected through '_'.
func wrapJumpsInPoryswitch(src string, form int) (string, int) {
	lines := strings.Split(src, "\n")
	var out []string
	n := 0
	for i, l := range lines {
		t := strings.TrimLeft(l, "\t")
		ind := l[:len(l)-len(t)]
		if t != "break" && !(t == "continue" && i+1 < len(lines) && strings.TrimLeft(lines[i+1], "\t") == "}") {
			out = append(out, l)
			continue
		}
		n++
		switch form {
		case 0:
			out = append(out, ind+"poryswitch(PV) {", ind+"\tSEL {", ind+"\t\t"+t, ind+"\t}", ind+"\t_ {", ind+"\t\tother", ind+"\t}", ind+"}")
		case 1:
			out = append(out, ind+"poryswitch(PV) {", ind+"\tSEL: "+t, ind+"\t_: other", ind+"}")
		case 2:
			out = append(out, ind+"poryswitch(PV) {", ind+"\tNOPE { other }", ind+"\t_ { "+t+" }", ind+"}")
		default:
			// form 3 (round 13): the jump stays where it is and is preceded by a poryswitch whose selected case is empty -
			// one source statement that contributes no statement at all
			out = append(out, ind+"poryswitch(PV) {", ind+"\tSEL {}", ind+"\t_ { other }", ind+"}", l)
		}
	}
	return strings.Join(out, "\n"), n
}
