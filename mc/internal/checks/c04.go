package checks

import (
	"fmt"
	"regexp"
	"sort"
	"strings"
	"time"

	"pmc/internal/comp"
	"pmc/internal/harness"
	"pmc/internal/machine"
	"pmc/internal/model"
)

// C04 — emitted assembly is closed: labels unique, references resolved, every
// user label present exactly once, no run-off. Static closure on ALL code
// (reachable or not) of every output + the explorer's dynamic run-off outcome.

func init() { register(&Check{ID: "C04", Run: runC04}) }

// fileProgram is a whole-file input for the static closure check.
type fileProgram struct {
	Desc       string
	Src        string
	Opts       comp.Opts
	Owners     []string
	UserLabels map[string]bool // labels written inside scripts
	DataLabels map[string]bool
	External   map[string]bool // names the source refers to but does not define
	Scripts    []*model.Script // optional: when set, the dynamic run-off exploration is done too
}

// closureProblems runs the static closure clauses on one output.
func closureProblems(out string, fp *fileProgram) (problems []string, defined, referenced int) {
	p := machine.ReadAsm(out, machine.ReadOpts{Owners: fp.Owners, UserLabels: fp.UserLabels, DataLabels: fp.DataLabels})
	// (0) no emitted line has an empty argument (a hoisted text / movement argument that was never filled in shows as one)
	for _, line := range strings.Split(out, "\n") {
		if strings.HasPrefix(line, "\t") && !strings.HasPrefix(line, "\t.") {
			t := strings.TrimRight(line, " ")
			if strings.HasSuffix(t, ",") || strings.Contains(t, ", ,") || strings.Contains(t, " , ") {
				problems = append(problems, "command with an empty argument: "+strings.TrimSpace(line))
			}
		}
	}
	// (1) every label defined exactly once
	var dups []string
	for l := range p.DupLabel {
		dups = append(dups, l)
	}
	sort.Strings(dups)
	for _, l := range dups {
		problems = append(problems, "label defined more than once: "+l)
	}
	defined = len(p.Labels)
	// (2) every referenced label is defined (designated external names exempt)
	refs := p.Refs()
	// labels referenced from data: map_script entries and hoisted arguments
	for _, raw := range strings.Split(out, "\n") {
		t := strings.TrimSpace(raw)
		if strings.HasPrefix(t, "map_script ") || strings.HasPrefix(t, "map_script_2 ") {
			parts := strings.Split(t, ", ")
			refs[parts[len(parts)-1]] = append(refs[parts[len(parts)-1]], -1)
		}
	}
	for pc := range p.Ins {
		if p.Ins[pc].Op != machine.OpCmd {
			continue
		}
		for _, f := range strings.FieldsFunc(p.Ins[pc].Text, func(r rune) bool { return r == ' ' || r == ',' }) {
			if isHoisted(f, fp.Owners) {
				refs[f] = append(refs[f], pc)
			}
		}
	}
	var names []string
	for l := range refs {
		names = append(names, l)
	}
	sort.Strings(names)
	referenced = len(names)
	for _, l := range names {
		if _, ok := p.Labels[l]; !ok && !fp.External[l] {
			problems = append(problems, "referenced label is not defined: "+l)
		}
	}
	// (3) every user label of the source appears exactly once
	var uls []string
	for l := range fp.UserLabels {
		uls = append(uls, l)
	}
	sort.Strings(uls)
	for _, l := range uls {
		if _, ok := p.Labels[l]; !ok {
			problems = append(problems, "user label missing from the output: "+l)
		}
	}
	// (4) no fall-through across a block boundary, from any label
	problems = append(problems, p.RunOffs()...)
	return
}

func isHoisted(name string, owners []string) bool {
	for _, o := range owners {
		for _, mid := range []string{"_Text_", "_Movement_"} {
			pre := o + mid
			if len(name) > len(pre) && strings.HasPrefix(name, pre) && strings.Trim(name[len(pre):], "0123456789") == "" {
				return true
			}
		}
	}
	return false
}

func c04Class(problem string) string {
	for _, k := range []string{"label defined more than once", "referenced label is not defined", "user label missing", "falls through", "defined at the end of the file"} {
		if strings.Contains(problem, k) {
			return strings.ReplaceAll(k, " ", "_")
		}
	}
	return "other"
}

// checkClosure compiles fp with both optimize settings and applies the clauses.
func checkClosure(r *harness.Run, fp *fileProgram) {
	for _, opt := range []bool{true, false} {
		o := fp.Opts
		o.Optimize = opt
		res := comp.Compile(fp.Src, o)
		if res.Panic != "" {
			r.Report(harness.Violation{Sig: "C04:panic", Summary: "compiler panic: " + firstLine(res.Panic) + "\n  source: " + fmt.Sprintf("%q", fp.Src), Replay: map[string]interface{}{"source": fp.Src}})
			continue
		}
		if res.Err != nil {
			r.Add("rejected_wellformed", 1)
			if r.Get("rejected_wellformed") <= 3 {
				r.Note("rejected (%s): %q", res.Err, fp.Src)
			}
			continue
		}
		r.Add("evaluations", 1)
		problems, def, ref := closureProblems(res.Out, fp)
		r.Add("labels_defined", int64(def))
		r.Add("labels_referenced", int64(ref))
		if def >= 3 && (len(fp.UserLabels) > 0 || strings.Contains(res.Out, "_Text_") || strings.Contains(res.Out, "_Movement_")) {
			r.Add("nontrivial", 1)
		}
		src, out, desc := fp.Src, res.Out, fp.Desc
		for _, pr := range problems {
			pr := pr
			r.Report(harness.Violation{
				Sig:     "C04:" + c04Class(pr),
				Summary: fmt.Sprintf("%s optimize=%v: %s\n  source: %q", desc, opt, pr, src),
				Replay:  map[string]interface{}{"desc": desc, "source": src, "optimize": opt, "problem": pr, "emitted_assembly": out},
				Recheck: func() bool {
					o2 := o
					res2 := comp.Compile(src, o2)
					if res2.Err != nil || res2.Panic != "" {
						return false
					}
					ps, _, _ := closureProblems(res2.Out, fp)
					for _, q := range ps {
						if q == pr {
							return true
						}
					}
					return false
				},
			})
		}
		if len(problems) == 0 && fp.Scripts != nil {
			// dynamic run-off / misuse on reachable paths under all game states
			asm := machine.ReadAsm(res.Out, machine.ReadOpts{Owners: fp.Owners, UserLabels: fp.UserLabels, DataLabels: fp.DataLabels})
			ref := model.Lower(fp.Scripts)
			for _, sc := range fp.Scripts {
				st, v := machine.Explore(ref, asm, sc.Name, sc.Name, machine.Lazy)
				addStats(r, st)
				if v != nil && (v.B.Kind == machine.EvRunOff || v.B.Kind == machine.EvBad || (v.B.Kind == machine.EvOut && !fp.External[v.B.Text])) {
					r.Report(harness.Violation{Sig: "C04:dynamic:" + evClass(v.B), Summary: fmt.Sprintf("%s optimize=%v: %s\n  source: %q", desc, opt, v, src),
						Replay: map[string]interface{}{"desc": desc, "source": src, "optimize": opt, "problem": v.String(), "emitted_assembly": out}})
				}
			}
		}
		if r.WantSample() && def >= 5 && len(fp.UserLabels) > 0 {
			r.Sample(map[string]interface{}{"desc": desc, "source": src, "labels_defined": def, "labels_referenced": ref})
		}
	}
}

// deadLabelPrograms: labels in dead code (after end, return, break, an infinite
// loop, inside a body shared with default), each with a goto to it.
func deadLabelPrograms() []*model.Script {
	lab := func(n string) model.Stmt { return model.Stmt{Kind: model.SLabel, Name: n} }
	gto := func(n string) model.Stmt { return model.Stmt{Kind: model.SGoto, Name: n} }
	var out []*model.Script
	tails := [][]model.Stmt{
		{lab("L1")},
		{lab("L1"), mcmd("t")},
		{lab("L1"), mcmd("t"), {Kind: model.SEnd}},
		{mcmd("u"), lab("L1"), mcmd("t")},
		{lab("L1"), {Kind: model.SIf, Arms: []model.Arm{{Cond: mflag("Q"), Body: []model.Stmt{mcmd("t")}}}}, lab("L2"), mcmd("v")},
		{mcmd("u"), {Kind: model.SSwitch, Operand: mvar("Z"), Cases: []model.Case{{Val: 1, Body: []model.Stmt{lab("L1"), mcmd("t")}}}}},
		{{Kind: model.SIf, Arms: []model.Arm{{Cond: mflag("Q"), Body: []model.Stmt{mcmd("u")}}}, HasElse: true, Else: []model.Stmt{lab("L1"), mcmd("t")}}},
		{{Kind: model.SWhile, Cond: mflag("Q"), Body: []model.Stmt{{Kind: model.SDoWhile, Cond: mflag("R"), Body: []model.Stmt{lab("L1"), mcmd("t")}}}}},
		{{Kind: model.SSwitch, Operand: mvar("Z"), Cases: []model.Case{{Default: true, Body: []model.Stmt{{Kind: model.SSwitch, Operand: mvar("Y"), Cases: []model.Case{{Val: 2}, {Val: 3, Body: []model.Stmt{lab("L1"), mcmd("t")}}}}}}}}},
	}
	// the label inside every kind of block (and every pair of nested blocks) of a statement in dead code
	wraps := labelWrappers()
	inner := []model.Stmt{lab("L1"), mcmd("t")}
	for _, w := range wraps {
		tails = append(tails, []model.Stmt{w(inner, 1)})
		for _, w2 := range wraps {
			tails = append(tails, []model.Stmt{w2([]model.Stmt{w(inner, 1)}, 2)})
		}
	}
	for ti, tail := range tails {
		for k := 0; k < 10; k++ {
			var body []model.Stmt
			pre := []model.Stmt{{Kind: model.SIf, Arms: []model.Arm{{Cond: mflag("G"), Body: []model.Stmt{gto("L1")}}}}}
			switch k {
			case 0: // after end
				body = append(append(pre, mcmd("a"), model.Stmt{Kind: model.SEnd}), tail...)
			case 1: // after return
				body = append(append(pre, mcmd("a"), model.Stmt{Kind: model.SReturn}), tail...)
			case 2: // after break in a while
				body = append(pre, model.Stmt{Kind: model.SWhile, Cond: mflag("W"), Body: append([]model.Stmt{mcmd("a"), {Kind: model.SBreak}}, tail...)}, mcmd("z"))
			case 3: // after an infinite loop
				body = append(append(pre, model.Stmt{Kind: model.SWhileInf, Body: []model.Stmt{mcmd("a")}}), tail...)
			case 4: // inside a body shared with default
				body = append(pre, model.Stmt{Kind: model.SSwitch, Operand: mvar("X"), Cases: []model.Case{{Default: true}, {Val: 1, Body: append([]model.Stmt{mcmd("a")}, tail...)}}}, mcmd("z"))
			case 5: // after break in a switch case
				body = append(pre, model.Stmt{Kind: model.SSwitch, Operand: mvar("X"), Cases: []model.Case{{Val: 1, Body: append([]model.Stmt{mcmd("a"), {Kind: model.SBreak}}, tail...)}, {Default: true, Body: []model.Stmt{mcmd("d")}}}}, mcmd("z"))
			case 6: // after goto
				body = append(append(pre, mcmd("a"), gto("EXT")), tail...)
			case 8: // after a break inside an if inside a switch case whose body goes on after the if
				body = append(pre, model.Stmt{Kind: model.SSwitch, Operand: mvar("X"), Cases: []model.Case{{Val: 1, Body: []model.Stmt{
					{Kind: model.SIf, Arms: []model.Arm{{Cond: mflag("P"), Body: append([]model.Stmt{mcmd("a"), {Kind: model.SBreak}}, tail...)}}}, mcmd("seen")}}, {Val: 2, Body: []model.Stmt{mcmd("d")}}}}, mcmd("z"))
			case 9: // ... and inside a loop body that goes on after the if
				body = append(pre, model.Stmt{Kind: model.SWhile, Cond: mflag("W"), Body: []model.Stmt{
					{Kind: model.SIf, Arms: []model.Arm{{Cond: mflag("P"), Body: append([]model.Stmt{mcmd("a"), {Kind: model.SBreak}}, tail...)}}}, mcmd("seen")}}, mcmd("z"))
			default: // after end inside an if body
				body = append(pre, model.Stmt{Kind: model.SIf, Arms: []model.Arm{{Cond: mflag("P"), Body: append([]model.Stmt{{Kind: model.SEnd}}, tail...)}}}, mcmd("z"))
			}
			b, _ := cloneBody(body)
			out = append(out, &model.Script{Name: "S", Body: b})
			_ = ti
		}
	}
	return out
}

// labelWrappers: one constructor per kind of block a statement can contain; each puts the given
// statements into that block of a fresh statement (k keeps operand names distinct).
func labelWrappers() []func(in []model.Stmt, k int) model.Stmt {
	fl := func(p string, k int) *model.Cond { return mflag(fmt.Sprintf("%s%d", p, k)) }
	c := func(p string, k int) model.Stmt { return mcmd(fmt.Sprintf("%s%d", p, k)) }
	return []func(in []model.Stmt, k int) model.Stmt{
		func(in []model.Stmt, k int) model.Stmt { // if body
			return model.Stmt{Kind: model.SIf, Arms: []model.Arm{{Cond: fl("P", k), Body: in}}}
		},
		func(in []model.Stmt, k int) model.Stmt { // elif body, no else
			return model.Stmt{Kind: model.SIf, Arms: []model.Arm{{Cond: fl("P", k), Body: []model.Stmt{c("p", k)}}, {Cond: fl("Q", k), Body: in}}}
		},
		func(in []model.Stmt, k int) model.Stmt { // second elif body, with else
			return model.Stmt{Kind: model.SIf, Arms: []model.Arm{{Cond: fl("P", k), Body: []model.Stmt{c("p", k)}}, {Cond: fl("Q", k), Body: nil}, {Cond: fl("R", k), Body: in}}, HasElse: true, Else: []model.Stmt{c("q", k)}}
		},
		func(in []model.Stmt, k int) model.Stmt { // else body
			return model.Stmt{Kind: model.SIf, Arms: []model.Arm{{Cond: fl("P", k), Body: []model.Stmt{c("p", k)}}}, HasElse: true, Else: in}
		},
		func(in []model.Stmt, k int) model.Stmt { // while body
			return model.Stmt{Kind: model.SWhile, Cond: fl("W", k), Body: in}
		},
		func(in []model.Stmt, k int) model.Stmt { // do...while body
			return model.Stmt{Kind: model.SDoWhile, Cond: fl("D", k), Body: in}
		},
		func(in []model.Stmt, k int) model.Stmt { // infinite while body
			return model.Stmt{Kind: model.SWhileInf, Body: append(append([]model.Stmt{}, in...), model.Stmt{Kind: model.SIf, Arms: []model.Arm{{Cond: fl("B", k), Body: []model.Stmt{{Kind: model.SBreak}}}}})}
		},
		func(in []model.Stmt, k int) model.Stmt { // case body (second case, shared with a body-less one)
			return model.Stmt{Kind: model.SSwitch, Operand: mvar(fmt.Sprintf("Y%d", k)), Cases: []model.Case{{Val: 1, Body: []model.Stmt{c("p", k)}}, {Val: 2}, {Val: 3, Body: in}}}
		},
		func(in []model.Stmt, k int) model.Stmt { // default body
			return model.Stmt{Kind: model.SSwitch, Operand: mvar(fmt.Sprintf("Y%d", k)), Cases: []model.Case{{Val: 1, Body: []model.Stmt{c("p", k)}}, {Default: true, Body: in}}}
		},
	}
}

func cloneBody(b []model.Stmt) ([]model.Stmt, error) {
	sc := cloneScript(&model.Script{Name: "S", Body: b})
	return sc.Body, nil
}

func runC04(tier string) int {
	r := harness.NewRun("C04", "exploration", tier, budget(tier, 50*time.Second, 12*time.Minute))
	r.HangLimit = 90 * time.Second // one case is one small program: a compilation that takes this long hangs
	plans, swN := enginePlans(tier)
	ext := map[string]bool{"EXT": true}
	forEachEngineProgram(r, plans, swN, func(w int, p engineProgram) {
		scripts := []*model.Script{p.Script}
		fp := &fileProgram{Desc: p.Desc, Src: model.Print(scripts), Owners: []string{"S"}, UserLabels: model.UserLabels(scripts), External: ext, Scripts: scripts}
		r.Add("programs", 1)
		checkClosure(r, fp)
	})
	// The closure clauses hold for whatever the compiler accepts. C20's ill-formed programs (every injection under every
	// wrapper chain of depth <= 1 and under every root) must be rejected; if one is accepted nevertheless, its output must
	// still be closed: every label the author wrote defined once, every reference resolved.
	type illJob struct {
		root  int
		chain []int
	}
	var ills []illJob
	for ri := range c20Roots {
		ills = append(ills, illJob{ri, nil})
		for wi := range c20Wraps {
			ills = append(ills, illJob{ri, []int{wi}})
		}
	}
	labelDef := regexp.MustCompile(`(?m)^\s*([A-Za-z_][A-Za-z0-9_]*)(\((global|local)\))?:\s*$`)
	jumpRef := regexp.MustCompile(`\b(goto|call)\(([A-Za-z_][A-Za-z0-9_]*)\)`)
	if !r.Parallel(uint64(len(ills)*len(c20Injs)), func(w int, idx uint64) {
		j, inj := ills[idx/uint64(len(c20Injs))], c20Injs[idx%uint64(len(c20Injs))]
		src, _, _, ok := c20Build(c20Roots[j.root], j.chain, inj)
		if !ok {
			return
		}
		fp := &fileProgram{Desc: "C20 program " + inj.name, Src: src, Opts: comp.Opts{Switches: map[string]string{"PV": "SEL"}}, Owners: []string{[]string{"S", "M_ON_LOAD", "M_ON_FRAME_0"}[j.root]},
			UserLabels: map[string]bool{}, DataLabels: map[string]bool{"M": true, "M_ON_FRAME": true}, External: map[string]bool{}}
		for _, m := range labelDef.FindAllStringSubmatch(src, -1) {
			if m[1] != "_" && m[1] != "default" {
				fp.UserLabels[m[1]] = true
			}
		}
		for _, m := range jumpRef.FindAllStringSubmatch(src, -1) {
			if !fp.UserLabels[m[2]] {
				fp.External[m[2]] = true
			}
		}
		for _, opt := range []bool{true, false} {
			o := fp.Opts
			o.Optimize = opt
			res := comp.Compile(src, o)
			r.Add("c20_programs", 1)
			if res.Err != nil || res.Panic != "" {
				r.Add("c20_programs_rejected", 1)
				continue
			}
			r.Add("evaluations", 1)
			problems, _, _ := closureProblems(res.Out, fp)
			for _, pr := range problems {
				r.Report(harness.Violation{Sig: "C04:accepted-ill-formed:" + c04Class(pr), Summary: fmt.Sprintf("%s optimize=%v: the program was accepted and its output is not closed: %s\n  source: %q", fp.Desc, opt, pr, src), Replay: map[string]interface{}{"desc": fp.Desc, "source": src, "optimize": opt, "problem": pr, "emitted_assembly": res.Out}})
			}
		}
	}) {
		r.NotExhaustive("C20 programs not completed")
	}
	mixed := append(mixedNestingPrograms(tier), hugePrograms(tier)...)
	if !r.Parallel(uint64(len(mixed)), func(w int, i uint64) {
		scripts := []*model.Script{mixed[i].Script}
		fp := &fileProgram{Desc: mixed[i].Desc, Src: model.Print(scripts), Owners: []string{"S"}, UserLabels: model.UserLabels(scripts), External: ext, Scripts: scripts}
		r.Add("programs", 1)
		r.Add("mixed_nesting_programs", 1)
		checkClosure(r, fp)
	}) {
		r.NotExhaustive("mixed nesting programs not completed")
	}
	for _, fp := range fileLevelPrograms(tier) {
		r.Add("programs", 1)
		r.Add("file_level_programs", 1)
		checkClosure(r, fp)
	}
	// the C06 (hoisting) and C08 (mapscripts) families, re-enumerated at a reduced bound
	c04Tap = func(fp *fileProgram) {
		r.Add("programs", 1)
		r.Add("hoisting_and_mapscripts_programs", 1)
		checkClosure(r, fp)
	}
	slots, ents := 3, 2
	if tier == "thorough" {
		slots, ents = 4, 3
	}
	if !r.Expired() {
		c06Enumerate(r, slots, []int{0, 5}, func(data []datum, dist []int, rot, clash int) { c06Eval(r, data, dist, rot, clash) })
	}
	if !r.Expired() {
		c08Enumerate(r, 2, ents, func(entries []c08Entry, scope string, opt bool) {
			if opt {
				c08Eval(r, entries, scope, opt, map[string]string{"PV": "SEL"})
			}
		})
	}
	c04Tap = nil
	// user labels whose names merely END in a sub-label name ('PreS_3' in script S): not imitations - the compiler accepts
	// them - and they must survive like any other label
	dead := deadLabelPrograms()
	r.Parallel(uint64(len(dead)), func(w int, pi uint64) {
		base := model.Print([]*model.Script{dead[pi]})
		for n := 1; n <= 8; n++ {
			name := fmt.Sprintf("PreS_%d", n)
			src := labelL1Re.ReplaceAllString(base, name)
			sc := cloneScript(dead[pi])
			model.Walk(sc.Body, func(st *model.Stmt) {
				if (st.Kind == model.SLabel || st.Kind == model.SGoto || st.Kind == model.SGotoIf) && st.Name == "L1" {
					st.Name = name
				}
			})
			scripts := []*model.Script{sc}
			fp := &fileProgram{Desc: fmt.Sprintf("dead-label program %d with the label named %s", pi, name), Src: src, Owners: []string{"S"}, UserLabels: model.UserLabels(scripts), External: ext, Scripts: scripts}
			r.Add("programs", 1)
			r.Add("suffix_named_label_programs", 1)
			checkClosure(r, fp)
		}
	})
	c04MassFile(r, tier)
	r.Assume("user-chosen names never imitate generated names (<script>_<n>, <script>_Text_<n>, <script>_Movement_<n>, <map>_<TYPE>...): generator guarantee",
		"static run-off clause takes every branch as feasible and every label as a possible entry")
	return r.Finish(r.Get("evaluations"), r.Get("nontrivial"),
		"outputs of the C01 families and C03 switch programs (re-enumerated), a family with labels in dead code (after end/return/break/goto/infinite loop, in a body shared with default), multi-statement files, and the C06 hoisting and C08 mapscripts families at a reduced bound, the dead-label programs with the label named 'PreS_<n>' for n <= 8 (a name that ends in a sub-label name), and one mass file of N scripts (N in the coverage) scanned for labels defined once and references resolved; each case = one emitted file checked for: labels defined once, references resolved, user labels present once, no fall-through across a block boundary from any label, plus dynamic run-off exploration; non-trivial = >= 3 labels defined and a user label or hoisted datum present")
}

// c04MassFile: one file with N scripts (systematic names, four body shapes with generated sub-labels). Any per-file
// table that is keyed by less than the full (script, sub-label) identity - a hash, a truncated or joined key - meets
// collisions at this size (about N^2 / 2^33 for a 32-bit hash). Checked with a linear scan: every label defined
// once, every referenced label defined.
func c04MassFile(r *harness.Run, tier string) {
	n := 120000
	if tier == "thorough" {
		n = 500000
	}
	bodies := []string{
		"\tif (flag(F)) {\n\t\tx\n\t}\n",
		"\twhile (var(V) < 3) {\n\t\tx\n\t\tif (flag(G)) {\n\t\t\tbreak\n\t\t}\n\t}\n",
		"\tswitch (var(W)) {\n\t\tcase 1:\n\t\t\tx\n\t\tcase 2:\n\t\tdefault:\n\t\t\ty\n\t}\n",
		"\tif (flag(F) && var(V) == 2 || defeated(T)) {\n\t\tx\n\t} else {\n\t\ty\n\t}\n\tz\n",
	}
	prefixes := []string{"Sc", "Route", "Town_Script_", "é"}
	for _, opt := range []bool{true, false} {
		if r.Expired() {
			r.NotExhaustive("mass file not run")
			return
		}
		var sb strings.Builder
		for i := 0; i < n; i++ {
			fmt.Fprintf(&sb, "script %s%d {\n%s}\n", prefixes[i%len(prefixes)], i, bodies[(i/len(prefixes))%len(bodies)])
		}
		res := comp.Compile(sb.String(), comp.Opts{Optimize: opt})
		r.Add("evaluations", 1)
		r.Add("nontrivial", 1)
		if res.Err != nil || res.Panic != "" {
			r.Report(harness.Violation{Sig: "C04:mass:rejected", Summary: fmt.Sprintf("file with %d scripts rejected: %v %s", n, res.Err, firstLine(res.Panic)), Replay: map[string]interface{}{"scripts": n, "optimize": opt}})
			continue
		}
		defs := map[string]int{}
		var refs []string
		for _, line := range strings.Split(res.Out, "\n") {
			if line == "" {
				continue
			}
			if line[0] != '\t' {
				defs[strings.TrimRight(line, ":")]++
				continue
			}
			f := strings.Fields(line)
			switch {
			case f[0] == "goto" || strings.HasPrefix(f[0], "goto_if") || f[0] == "case":
				refs = append(refs, f[len(f)-1])
			}
		}
		r.Add("mass_file_labels", int64(len(defs)))
		r.Add("mass_file_references", int64(len(refs)))
		problems := 0
		first := ""
		for l, c := range defs {
			if c != 1 {
				problems++
				if first == "" || l < first {
					first = l
				}
			}
		}
		if problems > 0 {
			r.Report(harness.Violation{Sig: "C04:mass:label_defined_n_times", Summary: fmt.Sprintf("file with %d scripts (optimize=%v): %d labels are not defined exactly once, e.g. %s defined %d times", n, opt, problems, first, defs[first]), Replay: map[string]interface{}{"scripts": n, "optimize": opt, "label": first, "generator": "c04MassFile"}})
		}
		undefined, firstU := 0, ""
		for _, t := range refs {
			if defs[t] == 0 {
				undefined++
				if firstU == "" || t < firstU {
					firstU = t
				}
			}
		}
		if undefined > 0 {
			r.Report(harness.Violation{Sig: "C04:mass:referenced_label_is_not_defined", Summary: fmt.Sprintf("file with %d scripts (optimize=%v): %d references to undefined labels, e.g. %s", n, opt, undefined, firstU), Replay: map[string]interface{}{"scripts": n, "optimize": opt, "label": firstU, "generator": "c04MassFile"}})
		}
	}
	r.Set("mass_file_scripts", n)
}
