package checks

import (
	"fmt"
	"regexp"
	"sort"
	"strings"
	"time"

	"pmc/internal/comp"
	"pmc/internal/harness"
	"pmc/internal/machine"
	"pmc/internal/model"
)

// C05 — -optimize changes layout only and leaves no redundant jumps or labels.
// (a) lazy product of asm(optimize) x asm(no-optimize) from every script entry,
// (b)-(e) static clauses on both texts.

func init() { register(&Check{ID: "C05", Run: runC05}) }

var chunkLabelRe = regexp.MustCompile(`^S_[0-9]+$`)
var labelL1Re = regexp.MustCompile(`\bL1\b`)

type asmLine struct {
	text    string // trimmed
	isLabel bool
	name    string
	global  bool
}

func asmLines(out string) []asmLine {
	var ls []asmLine
	for _, raw := range strings.Split(out, "\n") {
		t := strings.TrimSpace(raw)
		if t == "" || strings.HasPrefix(t, "# ") {
			continue
		}
		l := asmLine{text: t}
		if !strings.HasPrefix(raw, "\t") && strings.HasSuffix(t, ":") {
			l.isLabel = true
			l.global = strings.HasSuffix(t, "::")
			l.name = strings.TrimRight(t, ":")
		}
		ls = append(ls, l)
	}
	return ls
}

// staticOptClauses checks clauses (d) and (e) on one text and returns the
// multiset of "stable" lines (everything but generated gotos and chunk labels),
// the visible label set and the number of generated gotos.
func staticOptClauses(out string, isChunk func(string) bool) (problems []string, stable []string, visible []string, gotos int) {
	ls := asmLines(out)
	referenced := map[string]bool{}
	for _, l := range ls {
		if l.isLabel {
			continue
		}
		for _, f := range strings.FieldsFunc(l.text, func(r rune) bool { return r == ' ' || r == ',' || r == '\t' }) {
			if isChunk(f) {
				referenced[f] = true
			}
		}
	}
	for i, l := range ls {
		if l.isLabel {
			if isChunk(l.name) {
				if !referenced[l.name] {
					problems = append(problems, "unreferenced generated label "+l.name)
				}
			} else {
				s := l.name + ":"
				if l.global {
					s += ":"
				}
				visible = append(visible, s)
			}
			continue
		}
		if strings.HasPrefix(l.text, "goto ") && isChunk(strings.TrimPrefix(l.text, "goto ")) {
			gotos++
			tgt := strings.TrimPrefix(l.text, "goto ")
			if i+1 < len(ls) && ls[i+1].isLabel && ls[i+1].name == tgt {
				problems = append(problems, "goto "+tgt+" targets the label on the very next line")
			}
			continue
		}
		stable = append(stable, l.text)
	}
	sort.Strings(stable)
	sort.Strings(visible)
	return
}

func runC05(tier string) int {
	r := harness.NewRun("C05", "model_checking", tier, budget(tier, 50*time.Second, 12*time.Minute))
	r.HangLimit = 90 * time.Second // one case is one small program: a compilation that takes this long hangs
	plans, swN := enginePlans(tier)
	isChunk := func(s string) bool { return chunkLabelRe.MatchString(s) }
	var base comp.Opts // options other than -optimize (a command config for the AutoVar programs); set before a batch, read-only inside it
	evalProgram := func(w int, p engineProgram) {
		base := base
		scripts := []*model.Script{p.Script}
		src := model.Print(scripts)
		bo, bn := base, base
		bo.Optimize, bn.Optimize = true, false
		ro := comp.Compile(src, bo)
		rn := comp.Compile(src, bn)
		if ro.Panic != "" || rn.Panic != "" {
			r.Report(harness.Violation{Sig: "C05:panic", Summary: "compiler panic on " + src, Replay: map[string]interface{}{"source": src}})
			return
		}
		if (ro.Err == nil) != (rn.Err == nil) {
			r.Report(harness.Violation{Sig: "C05:accept-differs", Summary: fmt.Sprintf("optimize on/off disagree on acceptance: %v / %v\n  source: %q", ro.Err, rn.Err, src), Replay: map[string]interface{}{"source": src}})
			return
		}
		if ro.Err != nil {
			r.Add("rejected_wellformed", 1)
			return
		}
		r.Add("evaluations", 1)
		if ro.Out != rn.Out {
			r.Add("nontrivial", 1)
		}
		report := func(sig, what string) {
			r.Report(harness.Violation{Sig: sig, Summary: fmt.Sprintf("%s: %s\n  source: %q", p.Desc, what, src),
				Replay: map[string]interface{}{"desc": p.Desc, "source": src, "optimized": ro.Out, "unoptimized": rn.Out, "problem": what},
				Recheck: func() bool {
					a := comp.Compile(src, bo)
					b := comp.Compile(src, bn)
					return a.Out == ro.Out && b.Out == rn.Out
				}})
		}
		// (a) behavioural identity, without going through the reference model.
		opts := machine.ReadOpts{Owners: []string{"S"}, UserLabels: model.UserLabels(scripts)}
		po, pn := machine.ReadAsm(ro.Out, opts), machine.ReadAsm(rn.Out, opts)
		st, v := machine.Explore(pn, po, "S", "S", machine.Lazy)
		addStats(r, st)
		if v != nil {
			// Both forms running off identically is C04's business, not C05's.
			if !(v.A == v.B) {
				report("C05:behaviour:unopt="+evClass(v.A)+"/opt="+evClass(v.B), "optimized and unoptimized outputs behave differently: "+v.String())
			}
		}
		// (d), (e) on both texts; (b), (c) across them.
		probO, stableO, visO, gotosO := staticOptClauses(ro.Out, isChunk)
		probN, stableN, visN, gotosN := staticOptClauses(rn.Out, isChunk)
		for _, pr := range probO {
			report("C05:static:opt:"+firstWords(pr, 2), "optimized output: "+pr)
		}
		for _, pr := range probN {
			report("C05:static:unopt:"+firstWords(pr, 2), "unoptimized output: "+pr)
		}
		if strings.Join(visO, "\n") != strings.Join(visN, "\n") {
			report("C05:visible-labels", "user-visible labels differ between the two forms")
		}
		if strings.Join(stableO, "\n") != strings.Join(stableN, "\n") {
			report("C05:lines", "the two forms differ in more than order, generated gotos and generated labels")
		}
		if gotosO > gotosN {
			report("C05:more-gotos", fmt.Sprintf("optimized form has more generated gotos (%d) than the unoptimized one (%d)", gotosO, gotosN))
		}
		r.Add("gotos_removed", int64(gotosN-gotosO))
		if r.WantSample() && ro.Out != rn.Out && gotosN > gotosO+1 {
			r.Sample(map[string]interface{}{"source": src, "gotos_unoptimized": gotosN, "gotos_optimized": gotosO, "product_states": st.States})
		}
	}
	forEachEngineProgram(r, plans, swN, evalProgram)
	mixed := append(mixedNestingPrograms(tier), hugePrograms(tier)...)
	if !r.Parallel(uint64(len(mixed)), func(w int, i uint64) { evalProgram(w, mixed[i]) }) {
		r.NotExhaustive("mixed nesting programs not completed")
	}
	r.Set("mixed_nesting_programs", len(mixed))
	// Conditions whose operand tests share one var: different operators and constants (2, 3, 4), the same test written plainly
	// and with value(), and constants whose decimal spellings are prefixes of one another (1, 10, 100) - in every condition position.
	maxShared := 3
	if tier == "thorough" {
		maxShared = 4
	}
	type sharedJob struct {
		tree  *model.Cond
		forms []int
	}
	var sjobs []sharedJob
	for k := 2; k <= maxShared; k++ {
		for _, t := range model.CondShapes(k) {
			for _, base := range []int{18, 21, 24, 100, 103, 200, 201, 202, 203, 204, 205} {
				f := make([]int, k)
				for i := range f {
					switch {
					case base < 100:
						f[i] = 18 + (base-18+i*2)%12
					case base < 200:
						f[i] = base
					default:
						f[i] = 200 + (base-200+i)%6
					}
				}
				sjobs = append(sjobs, sharedJob{t, f})
			}
		}
	}
	sharedDone := r.Parallel(uint64(len(sjobs)*numCondPositions), func(w int, idx uint64) {
		j, pos := sjobs[idx/numCondPositions], int(idx%numCondPositions)
		cond := model.Decorate(j.tree, make([]uint8, model.CountNodes(j.tree)), func(i int) *model.Leaf { return sharedLeaf(j.forms[i], i) })
		evalProgram(w, engineProgram{Script: condProgram(cond, pos), Desc: fmt.Sprintf("shared-operand condition %q at position %d", model.CondString(cond), pos)})
	})
	if !sharedDone {
		r.NotExhaustive("shared-operand conditions not completed")
	}
	// Conditions of every operand kind under negation and grouping (every tree with <= 2 leaves, leaf forms rotating over all
	// 34, every decoration of <= 2 nodes), as the condition of an if in the layouts in which the optimizer lets the body
	// follow its test directly: alone, with an else, and as the last statement of a switch case, of a while body and of a
	// do...while body
	type decoJob struct {
		tree *model.Cond
		f0   int
	}
	var djobs []decoJob
	maxDecoK := 2
	if tier == "thorough" {
		maxDecoK = 3
	}
	for k := 1; k <= maxDecoK; k++ {
		for _, t := range model.CondShapes(k) {
			for f0 := 0; f0 < model.NumLeafForms; f0++ {
				djobs = append(djobs, decoJob{t, f0})
			}
		}
	}
	decoDone := r.Parallel(uint64(len(djobs)), func(w int, idx uint64) {
		j := djobs[idx]
		model.ForEachDeco(model.CountNodes(j.tree), 2, func(deco []uint8) {
			for layout := 0; layout < 5; layout++ {
				cond := model.Decorate(j.tree, deco, func(i int) *model.Leaf { return model.LeafForm((j.f0+i*7)%model.NumLeafForms, i+1) })
				ifst := model.Stmt{Kind: model.SIf, Arms: []model.Arm{{Cond: cond, Body: []model.Stmt{mcmd("inbody")}}}}
				var body []model.Stmt
				switch layout {
				case 0:
					body = []model.Stmt{mcmd("a"), ifst, mcmd("after")}
				case 1:
					ifst.HasElse, ifst.Else = true, []model.Stmt{mcmd("inelse")}
					body = []model.Stmt{mcmd("a"), ifst, mcmd("after")}
				case 2:
					body = []model.Stmt{{Kind: model.SSwitch, Operand: mvar("XS"), Cases: []model.Case{{Val: 1, Body: []model.Stmt{ifst}}, {Val: 2, Body: []model.Stmt{mcmd("two")}}}}, mcmd("after")}
				case 3:
					body = []model.Stmt{{Kind: model.SWhile, Cond: mflag("LW"), Body: []model.Stmt{mcmd("w"), ifst}}, mcmd("after")}
				default:
					body = []model.Stmt{{Kind: model.SDoWhile, Cond: mflag("LD"), Body: []model.Stmt{mcmd("w"), ifst}}, mcmd("after")}
				}
				evalProgram(w, engineProgram{Script: &model.Script{Name: "S", Body: body}, Desc: fmt.Sprintf("decorated condition %q, layout %d", model.CondString(cond), layout)})
			}
		})
	})
	if !decoDone {
		r.NotExhaustive("decorated conditions not completed")
	}
	// the control-flow shapes whose conditions and switch operands are AutoVar commands (C01's family, with the command config):
	// an AutoVar command is a command - it occurs in both forms
	base = comp.Opts{Cmd: autoCfg}
	avs := c01AutoVarPrograms()
	if !r.Parallel(uint64(len(avs)), func(w int, i uint64) { evalProgram(w, avs[i]) }) {
		r.NotExhaustive("AutoVar programs not completed")
	}
	r.Set("autovar_programs", len(avs))
	base = comp.Opts{}
	// Files with hoisted data and several statement kinds: same hoisted data and user-visible labels in both forms.
	anyChunk := regexp.MustCompile(`^[A-Za-z0-9_]+_[0-9]+$`)
	evalFile := func(fp *fileProgram) {
		oo, on := fp.Opts, fp.Opts
		oo.Optimize, on.Optimize = true, false
		ro := comp.Compile(fp.Src, oo)
		rn := comp.Compile(fp.Src, on)
		if ro.Err != nil || rn.Err != nil {
			return
		}
		r.Add("evaluations", 1)
		r.Add("file_level_programs", 1)
		if ro.Out != rn.Out {
			r.Add("nontrivial", 1)
		}
		isCh := func(s string) bool {
			if !anyChunk.MatchString(s) {
				return false
			}
			for _, o := range fp.Owners {
				if strings.HasPrefix(s, o+"_") && strings.Trim(s[len(o)+1:], "0123456789") == "" {
					return true
				}
			}
			return false
		}
		probO, stableO, visO, gotosO := staticOptClauses(ro.Out, isCh)
		probN, stableN, visN, gotosN := staticOptClauses(rn.Out, isCh)
		var what []string
		for _, p := range append(probO, probN...) {
			what = append(what, p)
		}
		if strings.Join(visO, "\n") != strings.Join(visN, "\n") {
			what = append(what, "user-visible labels / hoisted data labels differ between the two forms")
		}
		if strings.Join(stableO, "\n") != strings.Join(stableN, "\n") {
			what = append(what, "the two forms differ in more than order, generated gotos and generated labels (hoisted data included)")
		}
		if gotosO > gotosN {
			what = append(what, "optimized form has more generated gotos")
		}
		// behaviour from the entry of every script of the file (inline map scripts included)
		if len(fp.Owners) > 0 {
			opts := machine.ReadOpts{Owners: fp.Owners, UserLabels: fp.UserLabels, DataLabels: fp.DataLabels}
			po, pn := machine.ReadAsm(ro.Out, opts), machine.ReadAsm(rn.Out, opts)
			for _, o := range fp.Owners {
				if _, ok := pn.Labels[o]; !ok {
					continue
				}
				st, v := machine.Explore(pn, po, o, o, machine.Lazy)
				addStats(r, st)
				if v != nil && !(v.A == v.B) {
					what = append(what, "optimized and unoptimized outputs behave differently from entry "+o+": "+v.String())
				}
			}
		}
		for _, w := range what {
			src := fp.Src
			r.Report(harness.Violation{Sig: "C05:file:" + firstWords(w, 3), Summary: fmt.Sprintf("%s: %s\n  source: %q", fp.Desc, w, clip(src, 500)), Replay: map[string]interface{}{"source": src, "optimized": ro.Out, "unoptimized": rn.Out, "problem": w}})
		}
	}
	// the file-level programs and the data families (C06 hoisting files, C08 mapscripts statements with several inline
	// scripts of different shapes)
	forEachDataFamilyFile(r, tier, evalFile)
	// acceptance must not depend on -optimize: the dead-label programs with their label renamed to every generated label that
	// either form emits (such a program is rejected - C20 - and it must be rejected in both forms)
	dead := deadLabelPrograms()
	r.Parallel(uint64(len(dead)), func(w int, pi uint64) {
		base := model.Print([]*model.Script{dead[pi]})
		rename := func(to string) string { return labelL1Re.ReplaceAllString(base, to) }
		names := map[string]bool{}
		for _, opt := range []bool{true, false} {
			res := comp.Compile(rename("Renamed"), comp.Opts{Optimize: opt})
			for _, l := range asmLines(res.Out) {
				if l.isLabel && chunkLabelRe.MatchString(l.name) {
					names[l.name] = true
				}
			}
		}
		// ... and to the next few numbers, which may name chunks whose labels neither form emits
		limit := len(names) + 3
		for n := 1; n <= limit; n++ {
			names[fmt.Sprintf("S_%d", n)] = true
		}
		for name := range names {
			src := rename(name)
			a, b := comp.Compile(src, comp.Opts{Optimize: true}), comp.Compile(src, comp.Opts{Optimize: false})
			r.Add("evaluations", 1)
			r.Add("label_clash_acceptance_pairs", 1)
			if (a.Err == nil) != (b.Err == nil) || a.Panic+b.Panic != "" {
				r.Report(harness.Violation{Sig: "C05:accept-differs:label-clash", Summary: fmt.Sprintf("a label named %s: optimize on -> %v, optimize off -> %v %s\n  source: %q", name, a.Err, b.Err, firstLine(a.Panic+b.Panic), src), Replay: map[string]interface{}{"source": src, "optimized_error": fmt.Sprint(a.Err), "unoptimized_error": fmt.Sprint(b.Err)}})
			}
		}
	})
	r.Set("traces_validated_against_impl", r.Get("transitions"))
	r.Assume("generated sub-labels are exactly the labels of the form <script>_<n>; user names never imitate them (generator guarantee)",
		"clause readings: 'only reorders code and removes jumps' = the multiset of lines other than generated gotos and generated labels is identical and the optimized form has no more generated gotos")
	return r.Finish(r.Get("evaluations"), r.Get("nontrivial"),
		"the C01 families and C03 switch programs (re-enumerated here), plus the file-level programs and the data families (C06 hoisting files, C08 mapscripts statements with several inline scripts; reduced bounds); plus the dead-label programs with the label renamed to every sub-label name (acceptance must not depend on -optimize); each case = one program compiled with optimize on and off, product exploration asm(on) x asm(off) over all game states plus static clauses (no goto to the next line, no unreferenced generated label, same visible labels, same non-goto lines); non-trivial = the two forms differ textually")
}
