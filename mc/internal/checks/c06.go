package checks

import (
	"fmt"
	"strings"
	"time"

	"github.com/huderlem/poryscript/parser"

	"pmc/internal/comp"
	"pmc/internal/dict"
	"pmc/internal/harness"
)

// C06 — inline text and moves() are hoisted to labels that denote exactly that content.

func init() { register(&Check{ID: "C06", Run: runC06}) }

type datum struct {
	src     string // source spelling of the argument
	isText  bool
	typ     string   // string type (directive), "" = string
	content string   // text: final content incl. terminator; moves: key of the expanded step list
	steps   []string // moves: expanded steps
}

var c06Data = []datum{
	{src: `"hi"`, isText: true, content: "hi$"},
	{src: `"hi$"`, isText: true, content: "hi$"},
	{src: `format("hi")`, isText: true, content: "hi$"},
	{src: `"yo"`, isText: true, content: "yo$"},
	{src: `ascii"hi"`, isText: true, typ: "ascii", content: `hi\0`},
	{src: `custom"hi"`, isText: true, typ: "custom", content: "hi"},
	{src: `moves(a b)`, steps: []string{"a", "b"}},
	{src: `moves(a, b)`, steps: []string{"a", "b"}},
	{src: `moves(a * 2)`, steps: []string{"a", "a"}},
	{src: `moves(a a)`, steps: []string{"a", "a"}},
	{src: `moves(ab)`, steps: []string{"ab"}},
	{src: `braille"hi"`, isText: true, typ: "braille", content: "hi$"},
	{src: `custom"hi$"`, isText: true, typ: "custom", content: "hi$"},
	{src: `moves(a1 * 2)`, steps: []string{"a1", "a1"}},
	{src: `moves(a12)`, steps: []string{"a12"}},
	{src: `moves(a * 3)`, steps: []string{"a", "a", "a"}},
	{src: `moves(a b * 2)`, steps: []string{"a", "b", "b"}},
	// contents that end in the characters terminators are made of
	{src: `ascii"hi0"`, isText: true, typ: "ascii", content: `hi0\0`},
	{src: `"hi$$"`, isText: true, content: "hi$$"},
	// the same literal formatted under parameter sets that give different results (and two that give the same)
	fmtDatum(`format("aaa bbb ccc ddd eee", "TEST", 70)`, "aaa bbb ccc ddd eee", 70, 0, 2),
	fmtDatum(`format("aaa bbb ccc ddd eee", "TEST", 70, cursorOverlapWidth=10)`, "aaa bbb ccc ddd eee", 70, 10, 2),
	fmtDatum(`format("aaa bbb ccc ddd eee", "TEST", 70, numLines=1)`, "aaa bbb ccc ddd eee", 70, 0, 1),
	fmtDatum(`format("aaa bbb ccc ddd eee", "TEST", 30)`, "aaa bbb ccc ddd eee", 30, 0, 2),
	fmtDatum(`format("aaa bbb ccc ddd eee", 70, "TEST", numLines=1, cursorOverlapWidth=10)`, "aaa bbb ccc ddd eee", 70, 10, 1),
	fmtDatum(`format("aaa bbb ccc ddd eee", "TEST", 75)`, "aaa bbb ccc ddd eee", 75, 0, 2),
}

// fmtDatum: a format() argument on the built-in TEST font (every glyph 10 pixels wide). The expected
// content is what a fresh FontConfig makes of the literal under exactly these parameters (C07 decides
// whether that formatting is right; C06 decides that the label holds the result for these parameters).
func fmtDatum(src, text string, maxLen, overlap, numLines int) datum {
	fc := parser.FontConfig{}
	out, err := fc.FormatText(text, maxLen, overlap, "TEST", numLines)
	if err != nil {
		panic(err)
	}
	return datum{src: src, isText: true, content: strings.ReplaceAll(out, "\n", "") + "$"} // FormatText puts a source newline after each break code; the emitter starts a new directive there
}

const c06Contexts = 13

var c06Owners = []string{"S1", "Map_ON_LOAD", "S2"}

func (d datum) key() string {
	if d.isText {
		return "T|" + d.typ + "|" + d.content
	}
	return "M|" + strings.Join(d.steps, ":")
}

// c06Stmt renders slot k (command name cmd) carrying datum src in context c.
func c06Stmt(cmd, arg string, c int) string {
	switch c {
	case 0:
		return "\t" + cmd + "(X, " + arg + ")\n"
	case 1:
		return "\tif (flag(F)) {\n\t\t" + cmd + "(X, " + arg + ")\n\t}\n"
	case 2:
		return "\twhile (flag(W)) {\n\t\t" + cmd + "(X, " + arg + ")\n\t}\n"
	case 3:
		return "\tswitch (var(V)) {\n\t\tcase 1:\n\t\t\t" + cmd + "(X, " + arg + ")\n\t\tdefault:\n\t\t\td\n\t}\n"
	case 4: // AutoVar condition argument
		return "\tif (" + cmd + "(X, " + arg + ") == 1) {\n\t\tz\n\t}\n"
	case 5: // selected poryswitch case; the unselected case holds a text that must not count
		return "\tporyswitch(PV) {\n\t\tSEL: " + cmd + "(X, " + arg + ")\n\t\t_: other(\"unselected\")\n\t}\n"
	case 6: // selected through '_', unselected case first
		return "\tporyswitch(PV) {\n\t\tNOPE { other(\"unselected\") other(moves(zz)) }\n\t\t_ { " + cmd + "(X, " + arg + ") }\n\t}\n"
	case 7: // do...while condition position (AutoVar)
		return "\tdo {\n\t\tw\n\t} while (" + cmd + "(X, " + arg + ") != 0)\n"
	case 8: // AutoVar leaf in a parenthesised group that is followed by an operator
		return "\tif ((" + cmd + "(X, " + arg + ") == 1) && flag(Q)) {\n\t\tz\n\t}\n"
	case 9: // AutoVar leaf inside a negated group in the middle of an expression
		return "\tif (flag(Q) && !(" + cmd + "(X, " + arg + ") || flag(R)) || var(VV) == 3) {\n\t\tz\n\t}\n"
	case 10: // elif condition, group first
		return "\tif (flag(Q)) {\n\t\ty\n\t} elif ((flag(R) || " + cmd + "(X, " + arg + ") != 2) && flag(T)) {\n\t\tz\n\t}\n"
	case 11: // AutoVar switch operand
		return "\tswitch (" + cmd + "(X, " + arg + ")) {\n\t\tcase 1:\n\t\t\tz\n\t}\n"
	default: // two inline data in one command: a typed text first
		return "\t" + cmd + "(custom\"p" + cmd + "\", " + arg + ")\n"
	}
}

// c06Enumerate visits every file of the C06 family with <= maxSlots inline arguments.
func c06Enumerate(r *harness.Run, maxSlots int, rotations []int, visit func(data []datum, dist []int, rot, clash int)) int {
	nD := uint64(len(c06Data))
	// owner distributions of N slots over 3 owners, each owner <= 3 slots, owners used in order
	completed := 0
	for N := 1; N <= maxSlots && !r.Expired(); N++ {
		var dists [][]int
		for a := 0; a <= 3; a++ {
			for b := 0; b <= 3; b++ {
				c := N - a - b
				if c < 0 || c > 3 {
					continue
				}
				dists = append(dists, []int{a, b, c})
			}
		}
		pow := uint64(1)
		for i := 0; i < N; i++ {
			pow *= nD
		}
		total := pow * uint64(len(dists)) * uint64(len(rotations)) * 4
		done := r.Parallel(total, func(w int, idx uint64) {
			clash := int(idx % 4)
			x := idx / 4
			if clash == 3 {
				// a user text / movement whose name is NEAR a generated label but is another symbol (zero-padded number, other
				// letter case, number written in hex): never a clash
				clash = 100 + int(x%8)
			} else if clash > 0 {
				// which owner's label the user statement imitates and whether it stands before or after the scripts rotates with the data
				clash += 2 * int(x%4)
			}
			rot := rotations[x%uint64(len(rotations))]
			x /= uint64(len(rotations))
			dist := dists[x%uint64(len(dists))]
			x /= uint64(len(dists))
			data := make([]datum, N)
			for i := range data {
				data[i] = c06Data[x%nD]
				x /= nD
			}
			visit(data, dist, rot, clash)
		})
		if done {
			completed = N
		}
	}
	return completed
}

// c04Tap, when set, receives every generated file of the C06 / C08 families instead of their own oracle
// (C04 re-enumerates those families for its closure clauses).
var c04Tap func(fp *fileProgram)

func runC06(tier string) int {
	r := harness.NewRun("C06", "exploration", tier, budget(tier, 50*time.Second, 12*time.Minute))
	maxSlots, rotations := 3, []int{0, 1, 3, 5, 7, 9, 11}
	if tier == "thorough" {
		maxSlots, rotations = 4, []int{0, 7} // 23^4 data assignments x 12 owner distributions x 2 rotations x 3 user-name variants
	}
	// the size dimension: files with K inline arguments of pairwise different content, for every K up to a bound
	// far above the exhaustive one (numbering, sharing and ordering must not depend on how many there are)
	maxK := 40
	if tier == "thorough" {
		maxK = 120
	}
	type longJob struct{ k, pattern, split, rot int }
	var longJobs []longJob
	for k := 4; k <= maxK; k++ {
		for pattern := 0; pattern < 5; pattern++ {
			for split := 0; split < 3; split++ {
				for _, rot := range []int{0, 5} {
					longJobs = append(longJobs, longJob{k, pattern, split, rot})
				}
			}
		}
	}
	longDone := r.Parallel(uint64(len(longJobs)), func(w int, i uint64) {
		j := longJobs[i]
		data := make([]datum, j.k)
		for n := range data {
			isText := false
			switch j.pattern {
			case 0:
				isText = true
			case 2:
				isText = n%2 == 0
			case 3:
				isText = n >= 4 // four movements first, then texts
			case 4:
				isText = n%5 == 4
			}
			if isText {
				data[n] = datum{src: fmt.Sprintf(`"t%d"`, n), isText: true, content: fmt.Sprintf("t%d$", n)}
			} else {
				data[n] = datum{src: fmt.Sprintf("moves(m%d)", n), steps: []string{fmt.Sprintf("m%d", n)}}
			}
			if n%7 == 6 {
				data[n] = data[n-3] // some sharing
			}
		}
		dist := []int{j.k, 0, 0}
		switch j.split {
		case 1:
			dist = []int{j.k / 3, j.k / 3, j.k - 2*(j.k/3)}
		case 2:
			dist = []int{0, j.k / 2, j.k - j.k/2}
		}
		r.Add("long_files", 1)
		c06Eval(r, data, dist, j.rot, 0)
	})
	if !longDone {
		r.NotExhaustive("long files not completed")
	}
	r.Set("long_files_max_inline_arguments", maxK)
	// long lists that differ only in the last characters of their last step (see c14.go)
	massLongLists(r, "C06", tier)
	// prepared pairs of contents with equal 64-bit digests
	hashCollisionFiles(r, "C06")
	c06ConditionChains(r)
	pairDataFiles(r, "C06")
	massTextsFile(r, "C06", tier)
	completed := c06Enumerate(r, maxSlots, rotations, func(data []datum, dist []int, rot, clash int) { c06Eval(r, data, dist, rot, clash) })
	if completed < maxSlots {
		r.NotExhaustive(fmt.Sprintf("completed files with <= %d inline arguments of planned <= %d", completed, maxSlots))
	}
	r.Set("max_slots_completed", completed)
	r.Set("datum_kinds", len(c06Data))
	r.Set("contexts", c06Contexts)
	r.Assume("names are <owner>_Text_<n> / <owner>_Movement_<n>, n counting the owner's new contents in source order of first appearance; content of a moves() is its written, expanded step list",
		"identical content = identical text after terminator and format() processing and identical string type")
	return r.Finish(r.Get("evaluations"), r.Get("nontrivial"),
		"every file with N inline arguments distributed over 3 owners (two scripts and an inline map script, <= 3 each; in odd rotations the map script's first argument sits in a table entry written before the plain inline script) x every assignment of 25 datum kinds (contents ending in terminator characters, plain / already-terminated / formatted / other text, ascii, braille and custom types incl. typed texts whose final literal equals a plain one, one literal under six format() parameter sets of which two give the same result, 9 moves() spellings incl. lists that differ only in the length of their last run or whose run-length spelling collides with another step name) x context rotations over 13 contexts (statement, if, while, switch case, AutoVar condition, selected poryswitch case, '_' case after an unselected one, do-while condition, AutoVar leaf in a parenthesised / negated group followed by an operator, elif condition, AutoVar switch operand, second of two inline data in one command) x {no user name, a user text, a user movement named like a generated label of the first script or of the inline map script, before or after the scripts (rotating), a user text / movement whose name is near a generated label without being one (zero-padded, other case, hex)}, every file defining constants named like the text contents and movement steps and holding explicit text / movement statements (local and exported) with the very contents of its inline arguments; plus long files with K pairwise different inline arguments for every K up to the bound in the coverage (5 text/movement patterns x 3 owner splits x 2 context rotations); plus one script with a moves() list of 41 steps for every 2-character (thorough: and 3-character) ending of its last step name over [a-z0-9_], each of which must get a block of its own; plus prepared pairs of different strings with equal digests under FNV-1 / FNV-1a 64 and small-base polynomial hashes as inline texts and steps of one script; plus conditions of three operands (flag tests and AutoVar commands with an inline text or moves()) under every operator pair and grouping in 4 positions: labels numbered left to right; plus pair-data files: every ordered pair of 24 inline arguments with near-equal dedupe keys (string types differing only in letter case, written-out terminators, step lists whose name+count spellings coincide, a multiplier of 1) in two scripts - each label holds what the argument holds compiled alone, labels equal iff contents equal; plus one script with 200,000 (thorough 600,000) different inline texts; non-trivial = some content is shared between two arguments")
}

func c06Eval(r *harness.Run, data []datum, dist []int, rot, clash int) {
	// Build the file. It starts with constants named like text contents and movement steps (they must not touch either).
	var sb strings.Builder
	sb.WriteString("const hi = 42\nconst yo = hi\nconst a = zz\nconst X = X\n")
	// explicit data statements whose contents equal inline contents of the file (local and exported, before the scripts):
	// an inline argument is hoisted to a generated label of its own script all the same
	sb.WriteString("text(local) ZTextHi {\n\t\"hi\"\n}\ntext ZTextYo {\n\t\"yo\"\n}\nmovement(local) ZMovAB {\n\ta\n\tb\n}\nmovement(global) ZMovAA {\n\ta * 2\n}\n")
	type slot struct {
		cmd   string
		owner string
		d     datum
		ctx   int
	}
	var slots []slot
	k := 0
	auto := map[string]bool{}
	for oi, owner := range c06Owners {
		n := dist[oi]
		var body strings.Builder
		for j := 0; j < n; j++ {
			ctx := (k*3 + rot) % c06Contexts
			cmd := fmt.Sprintf("c%d", k)
			if ctx == 4 || (ctx >= 7 && ctx <= 11) {
				auto[cmd] = true
			}
			body.WriteString(c06Stmt(cmd, data[k].src, ctx))
			slots = append(slots, slot{cmd, owner, data[k], ctx})
			k++
		}
		if oi == 1 {
			if n == 0 {
				continue
			}
			if n >= 2 && rot%2 == 1 {
				// the first argument of the map script goes into a table entry written BEFORE the plain inline script
				// (hoisted data is named and shared in source order, whatever order the scripts are emitted in)
				first := c06Stmt(slots[len(slots)-n].cmd, slots[len(slots)-n].d.src, slots[len(slots)-n].ctx)
				rest := strings.TrimPrefix(body.String(), first)
				slots[len(slots)-n].owner = "Map_ON_FRAME_0"
				sb.WriteString("mapscripts Map {\n\tON_FRAME [\n\t\tVAR_T, 0 {\n" + first + "\t\t}\n\t]\n\tON_LOAD {\n" + rest + "\t}\n}\n\n")
			} else {
				sb.WriteString("mapscripts Map {\n\tON_LOAD {\n" + body.String() + "\t}\n}\n\n")
			}
		} else {
			sb.WriteString("script " + owner + " {\n" + body.String() + "}\n\n")
		}
	}
	// Expected labels.
	seenKey := map[string]string{}
	tcount, mcount := map[string]int{}, map[string]int{}
	labelContent := map[string]datum{}
	var wantLabel []string
	shared := false
	assign := func(owner string, d datum) string {
		key := d.key()
		if l, ok := seenKey[key]; ok {
			shared = true
			return l
		}
		var l string
		if d.isText {
			l = fmt.Sprintf("%s_Text_%d", owner, tcount[owner])
			tcount[owner]++
		} else {
			l = fmt.Sprintf("%s_Movement_%d", owner, mcount[owner])
			mcount[owner]++
		}
		seenKey[key] = l
		labelContent[l] = d
		return l
	}
	// Texts of a script are hoisted before its movements; within each kind in source order.
	firstArg := make([]string, len(slots))
	wantLabel = make([]string, len(slots))
	for pass := 0; pass < 2; pass++ {
		for i, s := range slots {
			if pass == 0 {
				firstArg[i] = "X"
				if s.ctx == 12 {
					firstArg[i] = assign(s.owner, datum{isText: true, typ: "custom", content: "p" + s.cmd})
				}
			}
			if s.d.isText == (pass == 0) {
				wantLabel[i] = assign(s.owner, s.d)
			}
		}
	}
	expectError := false
	userName := ""
	src := sb.String()
	if clash >= 100 {
		owner := []string{"S1", "Map_ON_LOAD"}[(clash-100)/4]
		switch (clash - 100) % 4 {
		case 0:
			userName = owner + "_Text_00"
		case 1:
			userName = owner + "_Movement_01"
		case 2:
			userName = owner + "_text_0"
		default:
			userName = owner + "_Text_0x0"
		}
		stmt := "text " + userName + " {\n\t\"user\"\n}\n"
		if (clash-100)%4 == 1 {
			stmt = "movement " + userName + " {\n\tuserstep\n}\n"
		}
		if clash%2 == 0 {
			src = stmt + "\n" + src
		} else {
			src += stmt
		}
	} else if clash > 0 {
		owner := []string{"S1", "S1", "Map_ON_LOAD", "Map_ON_LOAD"}[(clash-1)/2]
		before := (clash-1)/2 == 1 || (clash-1)/2 == 2
		var stmt string
		if (clash-1)%2 == 0 {
			userName = owner + "_Text_0"
			stmt = "text " + userName + " {\n\t\"user\"\n}\n"
		} else {
			userName = owner + "_Movement_0"
			stmt = "movement " + userName + " {\n\tuserstep\n}\n"
		}
		_, expectError = labelContent[userName]
		if before {
			// after the constants, before the scripts
			i := strings.Index(src, "script ")
			if j := strings.Index(src, "mapscripts "); j >= 0 && (i < 0 || j < i) {
				i = j
			}
			if i < 0 {
				i = len(src)
			}
			src = src[:i] + stmt + "\n" + src[i:]
		} else {
			src += stmt
		}
	}
	// Slot commands that stand in a condition are AutoVar commands.
	cc := parser.CommandConfig{AutoVarCommands: map[string]parser.AutoVarCommand{}}
	for c := range auto {
		cc.AutoVarCommands[c] = parser.AutoVarCommand{VarName: "VAR_RESULT"}
	}
	opts := comp.Opts{Optimize: true, Cmd: cc, Switches: map[string]string{"PV": "SEL"}}
	if c04Tap != nil {
		if !expectError {
			data := map[string]bool{"Map": true, "Map_ON_FRAME": true, "ZTextHi": true, "ZTextYo": true, "ZMovAB": true, "ZMovAA": true}
			if userName != "" {
				data[userName] = true
			}
			owners := append(append([]string{}, c06Owners...), "Map_ON_FRAME_0")
			c04Tap(&fileProgram{Desc: fmt.Sprintf("C06 file dist=%v rot=%d clash=%d", dist, rot, clash), Src: src, Opts: opts, Owners: owners, UserLabels: map[string]bool{}, DataLabels: data, External: map[string]bool{}})
		}
		return
	}
	res := comp.Compile(src, opts)
	r.Add("evaluations", 1)
	if shared {
		r.Add("nontrivial", 1)
	}
	fail := func(sig, what string) {
		r.Report(harness.Violation{Sig: sig, Summary: fmt.Sprintf("%s\n  source: %q", what, src), Replay: map[string]interface{}{"source": src, "problem": what, "output": res.Out, "error": fmt.Sprint(res.Err)},
			Recheck: func() bool {
				r2 := comp.Compile(src, opts)
				return r2.Out == res.Out && (r2.Err == nil) == (res.Err == nil)
			}})
	}
	if res.Panic != "" {
		fail("C06:panic", "compiler panic: "+firstLine(res.Panic))
		return
	}
	if expectError {
		if res.Err == nil {
			fail("C06:clash-accepted", "user "+userName+" clashes with a generated label but the program was accepted")
		}
		return
	}
	if res.Err != nil {
		fail("C06:rejected:"+firstWords(res.Err.Error(), 5), "well-formed program rejected: "+res.Err.Error())
		return
	}
	// Every slot's command line carries the expected label.
	lines := strings.Split(res.Out, "\n")
	for i, s := range slots {
		found := 0
		for _, l := range lines {
			if strings.HasPrefix(l, "\t"+s.cmd+" ") {
				found++
				if l != "\t"+s.cmd+" "+firstArg[i]+", "+wantLabel[i] {
					fail("C06:argument-label", fmt.Sprintf("command %s emitted as %q, want argument %s (datum %s in context %d)", s.cmd, l, wantLabel[i], s.d.src, s.ctx))
				}
			}
		}
		if found != 1 {
			fail("C06:command-count", fmt.Sprintf("command %s appears %d times", s.cmd, found))
		}
	}
	// Every expected label is defined exactly once with exactly its content; no other hoisted label exists.
	defs := map[string]int{}
	for _, l := range asmLines(res.Out) {
		if l.isLabel {
			defs[l.name]++
			if strings.Contains(l.name, "_Text_") || strings.Contains(l.name, "_Movement_") {
				if _, ok := labelContent[l.name]; !ok && l.name != userName {
					// the unselected poryswitch cases must not leave data behind
					fail("C06:extra-hoisted-label", "hoisted label "+l.name+" is emitted but no selected argument denotes it")
				}
				if l.global && l.name != userName {
					fail("C06:hoisted-global", "hoisted label "+l.name+" is exported")
				}
			}
		}
	}
	for l, d := range labelContent {
		if defs[l] != 1 {
			fail("C06:label-defined-n-times", fmt.Sprintf("label %s defined %d times", l, defs[l]))
			continue
		}
		if d.isText {
			got, ok := directiveLines(res.Out, l)
			dir := "string"
			if d.typ != "" {
				dir = d.typ
			}
			all, sameDir := "", true
			for _, g := range got {
				all += g[1]
				sameDir = sameDir && g[0] == dir
			}
			if !ok || len(got) == 0 || !sameDir || all != d.content {
				fail("C06:text-content", fmt.Sprintf("label %s holds %v, want .%s %q", l, got, dir, d.content))
			}
		} else {
			got, _ := blockAfter(res.Out, l)
			want := []string{l + ":"}
			for _, s := range d.steps {
				want = append(want, "\t"+s)
			}
			want = append(want, "\tstep_end")
			if strings.Join(got, "\n") != strings.Join(want, "\n") {
				fail("C06:movement-content", fmt.Sprintf("label %s holds %q, want %q", l, got, want))
			}
		}
	}
	if userName != "" && defs[userName] != 1 {
		fail("C06:user-name-lost", fmt.Sprintf("user %s defined %d times", userName, defs[userName]))
	}
	if r.WantSample() && shared && len(slots) >= 4 && clash == 0 {
		r.Sample(map[string]interface{}{"source": src, "expected_labels": wantLabel})
	}
}

// hashCollisionFiles: for every prepared pair of different strings with equal digests under a common 64-bit hash (dict.HashCollisions),
// a script whose commands take the two strings as inline texts (plain and ascii, in both orders) and - where they are
// identifiers - as moves() steps: every command must get a label whose block holds its own content.
func hashCollisionFiles(r *harness.Run, id string) {
	for _, c := range dict.HashCollisions {
		for order := 0; order < 2; order++ {
			a, b := c.A, c.B
			if order == 1 {
				a, b = b, a
			}
			type arg struct{ src, want string }
			args := []arg{
				{`"` + a + `"`, `.string "` + a + `$"`}, {`"` + b + `"`, `.string "` + b + `$"`},
				{`ascii"` + a + `"`, `.ascii "` + a + `\0"`}, {`ascii"` + b + `"`, `.ascii "` + b + `\0"`},
			}
			if c09IdentRe.MatchString(a) && c09IdentRe.MatchString(b) {
				args = append(args, arg{"moves(" + a + ")", a}, arg{"moves(" + b + ")", b}, arg{"moves(w " + a + " w)", "w " + a + " w"}, arg{"moves(w " + b + " w)", "w " + b + " w"})
			}
			var sb strings.Builder
			sb.WriteString("script S {\n")
			for i, x := range args {
				fmt.Fprintf(&sb, "\tcmd%d(%s)\n", i, x.src)
			}
			sb.WriteString("}\n")
			src := sb.String()
			res := comp.Compile(src, comp.Opts{Optimize: true})
			r.Add("evaluations", 1)
			r.Add("nontrivial", 1)
			r.Add("hash_collision_files", 1)
			fail := func(what string) {
				r.Report(harness.Violation{Sig: id + ":hash-collision-pair", Summary: fmt.Sprintf("%q and %q (equal digests under %s) as inline data of one script: %s\n  source: %q", a, b, c.Hash, what, src), Replay: map[string]interface{}{"source": src, "output": res.Out, "hash": c.Hash}})
			}
			if res.Err != nil || res.Panic != "" {
				fail(fmt.Sprintf("rejected: %v %s", res.Err, firstLine(res.Panic)))
				continue
			}
			labels := map[string]bool{}
			for i, x := range args {
				label := ""
				for _, l := range strings.Split(res.Out, "\n") {
					if strings.HasPrefix(l, fmt.Sprintf("\tcmd%d ", i)) {
						label = strings.TrimPrefix(l, fmt.Sprintf("\tcmd%d ", i))
					}
				}
				blk, ok := blockAfter(res.Out, label)
				var got string
				if ok && len(blk) >= 2 {
					got = strings.TrimSpace(strings.Join(blk[1:], " "))
					got = strings.TrimSuffix(strings.ReplaceAll(got, "\t", ""), " step_end")
				}
				if !ok || got != x.want || labels[label] {
					fail(fmt.Sprintf("command %d (%s) refers to %q, whose block is %q; want a label of its own holding %q", i, x.src, label, got, x.want))
					break
				}
				labels[label] = true
			}
		}
	}
}

// massTextsFile: one script with N commands that each take a different short inline text. Every command must refer to a
// label of its own, in order of appearance, whose block holds its text (a 32-bit digest as de-duplication key collides a
// few times among N = 200,000 texts; thorough 600,000).
func massTextsFile(r *harness.Run, id, tier string) {
	n := 200000
	if tier == "thorough" {
		n = 600000
	}
	if r.Expired() {
		r.NotExhaustive("mass text file not run")
		return
	}
	var sb strings.Builder
	sb.WriteString("script S {\n")
	for i := 0; i < n; i++ {
		fmt.Fprintf(&sb, "\tc(\"t%x\")\n", i)
	}
	sb.WriteString("}\n")
	res := comp.Compile(sb.String(), comp.Opts{Optimize: true})
	r.Add("evaluations", 1)
	r.Add("nontrivial", 1)
	r.Set("mass_file_texts", n)
	if res.Err != nil || res.Panic != "" {
		r.Report(harness.Violation{Sig: id + ":mass-texts:rejected", Summary: fmt.Sprintf("script with %d inline texts rejected: %v %s", n, res.Err, firstLine(res.Panic)), Replay: map[string]interface{}{"texts": n, "generator": "massTextsFile"}})
		return
	}
	lines := strings.Split(res.Out, "\n")
	content := map[string]string{}
	for i, l := range lines {
		if strings.HasPrefix(l, "S_Text_") && strings.HasSuffix(l, ":") && i+1 < len(lines) {
			content[strings.TrimSuffix(l, ":")] = lines[i+1]
		}
	}
	bad, first, k := 0, "", 0
	for _, l := range lines {
		if !strings.HasPrefix(l, "\tc ") {
			continue
		}
		label := strings.TrimPrefix(l, "\tc ")
		if label != fmt.Sprintf("S_Text_%d", k) || content[label] != fmt.Sprintf("\t.string \"t%x$\"", k) {
			bad++
			if first == "" {
				first = fmt.Sprintf("command %d (text t%x) refers to %s = %q", k, k, label, content[label])
			}
		}
		k++
	}
	if k != n || bad > 0 {
		r.Report(harness.Violation{Sig: id + ":mass-texts:label-differs", Summary: fmt.Sprintf("script with %d different inline texts: %d commands found, %d do not refer to a label of their own text, e.g. %s", n, k, bad, first), Replay: map[string]interface{}{"texts": n, "generator": "massTextsFile", "first": first}})
	}
}

// c06ConditionChains: one condition of three operands - each a flag test, an AutoVar command with an inline text, or an
// AutoVar command with a moves() list - joined by && / || in every combination, plain and with either pair in
// parentheses, as the condition of an if, an elif, a while and a do...while, followed by a command with one more text and
// list: the generated labels are numbered in order of first appearance, left to right.
func c06ConditionChains(r *harness.Run) {
	cc := parser.CommandConfig{AutoVarCommands: map[string]parser.AutoVarCommand{"q1": {VarName: "VAR_RESULT"}, "q2": {VarName: "VAR_RESULT"}, "q3": {VarName: "VAR_RESULT"}}}
	ops := []string{"&&", "||"}
	done := r.Parallel(27*4*3*4, func(w int, idx uint64) {
		kinds := []int{int(idx % 3), int(idx / 3 % 3), int(idx / 9 % 3)}
		x := idx / 27
		o1, o2 := ops[x%2], ops[x/2%2]
		x /= 4
		paren, pos := int(x%3), int(x/3)
		var operands, wantLines []string
		nText, nMov := 0, 0
		for i, k := range kinds {
			switch k {
			case 0:
				operands = append(operands, fmt.Sprintf("flag(F%d)", i))
			case 1:
				operands = append(operands, fmt.Sprintf("q%d(\"chain text %d\")", i+1, i))
				wantLines = append(wantLines, fmt.Sprintf("\tq%d S_Text_%d", i+1, nText))
				nText++
			default:
				operands = append(operands, fmt.Sprintf("q%d(moves(cs%d up))", i+1, i))
				wantLines = append(wantLines, fmt.Sprintf("\tq%d S_Movement_%d", i+1, nMov))
				nMov++
			}
		}
		var cond string
		switch paren {
		case 0:
			cond = operands[0] + " " + o1 + " " + operands[1] + " " + o2 + " " + operands[2]
		case 1:
			cond = "(" + operands[0] + " " + o1 + " " + operands[1] + ") " + o2 + " " + operands[2]
		default:
			cond = operands[0] + " " + o1 + " (" + operands[1] + " " + o2 + " " + operands[2] + ")"
		}
		tail := "\tlast(\"tail text\", moves(tail up))\n"
		wantLines = append(wantLines, fmt.Sprintf("\tlast S_Text_%d, S_Movement_%d", nText, nMov))
		var src string
		switch pos {
		case 0:
			src = "script S {\n\tif (" + cond + ") {\n\t\tx\n\t}\n" + tail + "}\n"
		case 1:
			src = "script S {\n\tif (flag(G)) {\n\t\ty\n\t} elif (" + cond + ") {\n\t\tx\n\t}\n" + tail + "}\n"
		case 2:
			src = "script S {\n\twhile (" + cond + ") {\n\t\tx\n\t}\n" + tail + "}\n"
		default:
			src = "script S {\n\tdo {\n\t\tx\n\t} while (" + cond + ")\n" + tail + "}\n"
		}
		for _, opt := range []bool{true, false} {
			res := comp.Compile(src, comp.Opts{Optimize: opt, Cmd: cc})
			r.Add("evaluations", 1)
			r.Add("condition_chain_files", 1)
			if nText+nMov >= 2 {
				r.Add("nontrivial", 1)
			}
			problem := ""
			if res.Err != nil || res.Panic != "" {
				problem = fmt.Sprintf("rejected: %v %s", res.Err, firstLine(res.Panic))
			} else {
				for _, wl := range wantLines {
					if !strings.Contains(res.Out, wl+"\n") {
						problem = fmt.Sprintf("no line %q in the output", wl)
						break
					}
				}
			}
			if problem != "" {
				r.Report(harness.Violation{Sig: "C06:condition-chain", Summary: fmt.Sprintf("condition %q (optimize=%v): %s\n  source: %q", cond, opt, problem, src), Replay: map[string]interface{}{"source": src, "optimize": opt, "want_lines": wantLines, "output": res.Out}})
			}
		}
	})
	if !done {
		r.NotExhaustive("condition chains not completed")
	}
}
