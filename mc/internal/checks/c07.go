package checks

import (
	"encoding/json"
	"fmt"
	"os"
	"path/filepath"
	"strings"
	"time"

	"github.com/huderlem/poryscript/parser"

	"pmc/internal/comp"
	"pmc/internal/dict"
	"pmc/internal/harness"
)

// C07 — format() only turns spaces into line breaks, every line fits the box.
// Bounded-exhaustive atom sequences x fonts x every maxLineLength x numLines x
// cursorOverlapWidth against an independent oracle on the token stream.

func init() { register(&Check{ID: "C07", Run: runC07}) }

type fmtAtom struct {
	s     string
	kind  int // 0 word piece, 1 space(s), 2 break code, 3 raw newline
	brk   string
	glyph []string // glyph keys for width lookup
}

func wordAtom(s string, glyphs ...string) fmtAtom { return fmtAtom{s: s, kind: 0, glyph: glyphs} }

var fmtAtomsQuick = []fmtAtom{
	wordAtom("a", "a"),
	wordAtom("bb", "b", "b"),
	wordAtom("cac", "c", "a", "c"),
	wordAtom("é", "é"),
	wordAtom("{P}", "{P}"),
	wordAtom("{C R}", "{C R}"),
	{s: " ", kind: 1},
	{s: "  ", kind: 1},
	{s: `\n`, kind: 2, brk: `\n`},
	{s: `\l`, kind: 2, brk: `\l`},
	{s: `\p`, kind: 2, brk: `\p`},
	{s: `\N`, kind: 2, brk: `\N`},
	{s: "\n", kind: 3},
}

type synthFont struct {
	id     string
	widths map[string]int
}

var synthFonts = []synthFont{
	{"f1", map[string]int{" ": 1, "a": 1, "b": 2, "c": 3, "é": 2, "{P}": 4, "{C R}": 0, "{C}": 5, "{": 3, "C": 6, "LV": 9, "ab": 7, "default": 2}}, // an explicit zero width next to a non-zero default; the table also has entries for the bare code {C} and for single characters of the code {C R}: a code is looked up as a whole
	{"f2", map[string]int{" ": 3, "a": 2, "b": 1, "c": 1}}, // no default: unknown glyphs and codes are 0 wide
}

func (f synthFont) w(g string) int {
	if v, ok := f.widths[g]; ok {
		return v
	}
	if v, ok := f.widths["default"]; ok {
		return v
	}
	return 0
}

// fmtTok is the generator-side truth: the word / break sequence of a text.
type fmtTok struct {
	brk   string // "" for a word
	word  string
	width int
}

func tokensOf(atoms []fmtAtom, f synthFont) (string, []fmtTok) {
	var sb strings.Builder
	var toks []fmtTok
	cur, curW, in := "", 0, false
	flush := func() {
		if in {
			toks = append(toks, fmtTok{word: cur, width: curW})
			cur, curW, in = "", 0, false
		}
	}
	for _, a := range atoms {
		sb.WriteString(a.s)
		switch a.kind {
		case 0:
			in = true
			cur += a.s
			for _, g := range a.glyph {
				curW += f.w(g)
			}
		case 2:
			flush()
			toks = append(toks, fmtTok{brk: a.brk})
		default:
			flush()
		}
	}
	flush()
	return sb.String(), toks
}

// checkFormatted is the oracle. It returns "" or a description of the problem.
// breaksOut counts automatic breaks, atMax counts lines exactly at the limit.
func checkFormatted(out string, toks []fmtTok, f synthFont, maxW, overlap, numLines int) (problem string, autoBreaks int, atMax int) {
	// Parse the output into lines: content + terminating break code.
	type oline struct {
		words []string
		brk   string
	}
	var lines []oline
	parts := strings.Split(out, "\n")
	for i, p := range parts {
		l := oline{}
		if i < len(parts)-1 {
			if len(p) < 2 || p[len(p)-2] != '\\' {
				return fmt.Sprintf("output line %d does not end with a break code: %q", i, p), 0, 0
			}
			l.brk = p[len(p)-2:]
			p = p[:len(p)-2]
			if l.brk != `\n` && l.brk != `\l` && l.brk != `\p` {
				return fmt.Sprintf("output line %d ends with %q", i, l.brk), 0, 0
			}
		}
		if p != "" {
			if strings.HasPrefix(p, " ") || strings.HasSuffix(p, " ") || strings.Contains(p, "  ") {
				// spacing inside control codes is the only legal inner space run; our codes have single spaces
				return fmt.Sprintf("output line %d has irregular spacing: %q", i, p), 0, 0
			}
			l.words = splitWords(p)
		}
		lines = append(lines, l)
	}
	if len(toks) == 0 {
		if out != "" {
			return "empty text produced output", 0, 0
		}
		return "", 0, 0
	}
	spaceW := f.w(" ")
	ti := 0      // next input token
	lineIdx := 0 // breaks since the paragraph start
	for li, l := range lines {
		lineW, nw := 0, 0
		for _, w := range l.words {
			if ti >= len(toks) || toks[ti].brk != "" || toks[ti].word != w {
				exp := "end of text"
				if ti < len(toks) {
					exp = toks[ti].word + toks[ti].brk
				}
				return fmt.Sprintf("word %q in output line %d, expected %q", w, li, exp), 0, 0
			}
			if nw > 0 {
				lineW += spaceW
			}
			lineW += toks[ti].width
			nw++
			ti++
		}
		last := li == len(lines)-1
		if last {
			if ti != len(toks) {
				return fmt.Sprintf("text ends early: %d of %d tokens emitted", ti, len(toks)), 0, 0
			}
		}
		// the break ending this line
		auto := false
		if !last {
			if ti < len(toks) && toks[ti].brk != "" {
				want := toks[ti].brk
				if want == `\N` {
					want = `\n`
					if lineIdx >= numLines-1 {
						want = `\l`
					}
				}
				if l.brk != want {
					return fmt.Sprintf("line %d ends with %s, the text has %s there (resolved %s)", li, l.brk, toks[ti].brk, want), 0, 0
				}
				ti++
			} else {
				auto = true
				autoBreaks++
				if nw == 0 || ti >= len(toks) {
					return fmt.Sprintf("automatic break after line %d is not between two words", li), 0, 0
				}
				want := `\n`
				if lineIdx >= numLines-1 {
					want = `\l`
				}
				if l.brk != want {
					return fmt.Sprintf("automatic break after line %d is %s, text-box discipline wants %s (break %d of the paragraph, numLines=%d)", li, l.brk, want, lineIdx, numLines), 0, 0
				}
			}
		}
		// (3) the line fits, including the cursor overlap where the prompt is shown
		moreWords := false
		for k := ti; k < len(toks); k++ {
			if toks[k].brk == "" {
				moreWords = true
				break
			}
		}
		if nw >= 2 {
			need := lineW
			if moreWords && (lineIdx >= numLines-1 || l.brk == `\p`) {
				need += overlap
			}
			if need > maxW {
				return fmt.Sprintf("line %d %q is %d wide (with overlap %d) > maxLineLength %d", li, strings.Join(l.words, " "), need, need-lineW, maxW), 0, 0
			}
			if need == maxW {
				atMax++
			}
		}
		// (4) an automatic break is necessary: the moved word does not fit on this line
		if auto {
			moved := toks[ti]
			need := lineW + spaceW + moved.width
			after := ti+1 < len(toks)
			if after && (lineIdx >= numLines-1 || toks[ti+1].brk == `\p`) {
				need += overlap
			}
			if need <= maxW {
				return fmt.Sprintf("word %q was moved to a new line although it fits on line %d (%d <= %d)", moved.word, li, need, maxW), 0, 0
			}
		}
		if !last {
			if l.brk == `\p` {
				lineIdx = 0
			} else {
				lineIdx++
			}
		}
	}
	return "", autoBreaks, atMax
}

// splitWords splits a line on single spaces that are outside {...}.
func splitWords(p string) []string {
	var out []string
	depth, start := 0, 0
	for i := 0; i < len(p); i++ {
		switch p[i] {
		case '{':
			depth++
		case '}':
			if depth > 0 {
				depth--
			}
		case ' ':
			if depth == 0 {
				out = append(out, p[start:i])
				start = i + 1
			}
		}
	}
	return append(out, p[start:])
}

func runC07(tier string) int {
	r := harness.NewRun("C07", "exploration", tier, budget(tier, 50*time.Second, 12*time.Minute))
	atoms := fmtAtomsQuick
	maxLen := 5
	if tier == "thorough" {
		maxLen = 6
	}
	nA := uint64(len(atoms))
	completed := 0
	for L := 0; L <= maxLen && !r.Expired(); L++ {
		total := uint64(1)
		for i := 0; i < L; i++ {
			total *= nA
		}
		done := r.Parallel(total, func(w int, idx uint64) {
			seq := make([]fmtAtom, L)
			x := idx
			for i := range seq {
				seq[i] = atoms[x%nA]
				x /= nA
			}
			c07EvalSeq(r, seq)
		})
		if done {
			completed = L
		}
	}
	if completed < maxLen {
		r.NotExhaustive(fmt.Sprintf("completed atom sequences of length <= %d of planned <= %d", completed, maxLen))
	}
	// character classes: words that contain one representative of every Unicode general category, every non-ASCII white-space
	// rune, combining marks, astral runes and the non-ASCII runes of the compiler's own source (a word is only ended by an ASCII
	// space or a break code): every sequence of <= 2 atoms over the base and class atoms, and every (base, class, base) triple
	var classAtoms []fmtAtom
	classRunes := dict.CategoryRunes()
	for _, cr := range dict.Runes(dict.Load(repoDir())) {
		if cr >= 0x80 {
			classRunes = append(classRunes, cr)
		}
	}
	for _, cr := range classRunes {
		classAtoms = append(classAtoms, wordAtom("a"+string(cr)+"b", "a", string(cr), "b"))
	}
	// ... and the identifier-like literals of the compiler's own source as words (a word that equals a key of the width table, say)
	for _, wd := range dict.Identifiers(dict.Load(repoDir()), 24) {
		var glyphs []string
		for _, g := range wd {
			glyphs = append(glyphs, string(g))
		}
		classAtoms = append(classAtoms, wordAtom(wd, glyphs...))
	}
	// ... and words made of or containing backslashes that are not break codes (one, two and three in a row, before and after
	// a letter). A text in which such a backslash is directly followed by a break code or by n / l / p / N reads two ways and
	// is left out.
	// ... and words spelled like the reserved key of the width table ("default") and like multi-character keys
	for _, wd := range []string{"default", "Default", "defaults", "LV", "ab", `\`, `\\`, `\\\`, `a\`, `\a`, `a\\b`, `\\a`} {
		var glyphs []string
		for _, g := range wd {
			glyphs = append(glyphs, string(g))
		}
		classAtoms = append(classAtoms, wordAtom(wd, glyphs...))
	}
	all := append(append([]fmtAtom{}, atoms...), classAtoms...)
	nAll, nB, nC := uint64(len(all)), uint64(len(atoms)), uint64(len(classAtoms))
	classDone := r.Parallel(nAll+nAll*nAll+nB*nC*nB+nC*6*3, func(w int, idx uint64) {
		var seq []fmtAtom
		switch {
		case idx >= nAll+nAll*nAll+nB*nC*nB:
			// the class word as a word of its own next to other words: before, after and between them
			x := idx - (nAll + nAll*nAll + nB*nC*nB)
			c, wd, pat := classAtoms[x%nC], atoms[(x/nC)%6], x/nC/6
			switch pat {
			case 0:
				seq = []fmtAtom{wd, atoms[6], c}
			case 1:
				seq = []fmtAtom{c, atoms[6], wd}
			default:
				seq = []fmtAtom{wd, atoms[6], c, atoms[7], wd}
			}
		case idx < nAll:
			seq = []fmtAtom{all[idx]}
		case idx < nAll+nAll*nAll:
			x := idx - nAll
			seq = []fmtAtom{all[x%nAll], all[x/nAll]}
		default:
			x := idx - nAll - nAll*nAll
			seq = []fmtAtom{atoms[x%nB], classAtoms[(x/nB)%nC], atoms[x/nB/nC]}
		}
		for i := 0; i+1 < len(seq); i++ {
			if strings.HasSuffix(seq[i].s, `\`) && (seq[i+1].kind == 2 || strings.HasPrefix(seq[i+1].s, `\`) || strings.ContainsAny(seq[i+1].s[:1], "nlpN")) {
				return // ambiguous reading (see above); backslash runs are atoms of their own
			}
		}
		r.Add("class_rune_texts", 1)
		c07EvalSeq(r, seq)
	})
	if !classDone {
		r.NotExhaustive("character-class texts not completed")
	}
	// the size dimension: texts of K atoms for every K up to a bound (words of rotating widths, single and double
	// spaces, a break code every few words)
	maxK := 48
	if tier == "thorough" {
		maxK = 160
	}
	longDone := r.Parallel(uint64(maxK)*3, func(w int, idx uint64) {
		k := int(idx/3) + maxLen + 1
		pat := int(idx % 3)
		words := []fmtAtom{atoms[0], atoms[1], atoms[2], atoms[3], atoms[4], atoms[5]}
		brks := []fmtAtom{atoms[8], atoms[9], atoms[10], atoms[11], atoms[12]}
		var seq []fmtAtom
		for i := 0; len(seq) < k; i++ {
			seq = append(seq, words[(i*(pat+1)+pat)%len(words)])
			if pat == 1 && i%6 == 5 {
				seq = append(seq, brks[(i/6)%len(brks)])
			} else if pat == 2 && i%3 == 2 {
				seq = append(seq, atoms[7])
			} else {
				seq = append(seq, atoms[6])
			}
		}
		r.Add("long_texts", 1)
		c07EvalSeq(r, seq)
	})
	if !longDone {
		r.NotExhaustive("long texts not completed")
	}
	r.Set("long_text_max_atoms", maxK+maxLen)
	r.Set("max_atoms_completed", completed)
	r.Set("atoms", len(atoms))
	c07Compiled(r)
	r.Assume("a line shows the continue-prompt iff more words follow it and it is the last visible line of the box (>= numLines-1 breaks since the paragraph start) or it ends with \\p (README: cursorOverlapWidth)",
		"a moved word 'does not fit' when previous line + space + word (+ overlap when the line would show the prompt and anything follows the word) exceeds maxLineLength",
		"the word/break sequence of a text is known from the generator's atoms; the compiler's own tokeniser is not consulted")
	return r.Finish(r.Get("evaluations"), r.Get("nontrivial"),
		"every sequence of <= L atoms (3 plain words, a multi-byte word, 2 control codes incl. one with an inner space, single/double space, \\n \\l \\p \\N, a raw newline) x 2 synthetic fonts (with/without default width, space width 1 and 3) x numLines 1..3 x cursorOverlap {0,1,3,40} x every maxLineLength from 1 to longest line+1, called through the exported FormatText; plus words containing one representative of every Unicode category / non-ASCII white space / combining mark / astral rune / non-ASCII rune of the compiler's source in sequences of <= 3 atoms; plus long texts of K atoms for every K up to the bound in the coverage (3 patterns); plus a cross-product of format() spellings compiled end to end under 5 font config files (two font ids that differ only by case, numLines missing, maxLineLength missing, an overlap larger than the entry's length, different defaults, a third font); non-trivial = the output contains >= 1 automatic break")
}

// c07EvalSeq makes every call for one atom sequence and judges each result.
func c07EvalSeq(r *harness.Run, seq []fmtAtom) {
	c07Sequence(seq, func(c c07Call) {
		r.Add("evaluations", 1)
		if c.err != nil {
			r.Report(harness.Violation{Sig: "C07:error", Summary: fmt.Sprintf("FormatText(%q) returned error %v", c.text, c.err), Replay: map[string]interface{}{"text": c.text, "error": c.err.Error()}})
			return
		}
		problem, ab, am := checkFormatted(c.out, c.toks, c.font, c.maxW, c.overlap, c.numLines)
		if ab > 0 {
			r.Add("nontrivial", 1)
			r.Add("automatic_breaks", int64(ab))
		}
		r.Add("lines_exactly_at_max", int64(am))
		if problem != "" {
			bad := c
			r.Report(harness.Violation{
				Sig:     "C07:" + firstWords(problem, 3),
				Summary: fmt.Sprintf("FormatText(%q, maxWidth=%d, cursorOverlap=%d, font=%s, numLines=%d) = %q: %s", c.text, c.maxW, c.overlap, c.font.id, c.numLines, c.out, problem),
				Replay:  map[string]interface{}{"text": c.text, "maxLineLength": c.maxW, "cursorOverlapWidth": c.overlap, "fontId": c.font.id, "numLines": c.numLines, "font_widths": c.font.widths, "output": c.out, "problem": problem, "note": "calls are made on one FontConfig per text, in the order fonts x numLines x overlap x maxLineLength"},
				Recheck: func() bool {
					again := false
					c07Sequence(seq, func(d c07Call) {
						if d.font.id == bad.font.id && d.maxW == bad.maxW && d.overlap == bad.overlap && d.numLines == bad.numLines && d.err == nil {
							p2, _, _ := checkFormatted(d.out, d.toks, d.font, d.maxW, d.overlap, d.numLines)
							again = p2 != ""
						}
					})
					return again
				},
			})
		} else if ab >= 2 && r.WantSample() {
			r.Sample(map[string]interface{}{"text": c.text, "maxLineLength": c.maxW, "cursorOverlapWidth": c.overlap, "fontId": c.font.id, "numLines": c.numLines, "output": c.out})
		}
	})
}

type c07Call struct {
	text     string
	toks     []fmtTok
	font     synthFont
	numLines int
	overlap  int
	maxW     int
	out      string
	err      error
}

// c07Sequence makes every call for one atom sequence on ONE fresh FontConfig (so that anything a call
// leaves behind in the config - a cache, a mutated table - reaches the later calls of the same text, which
// use the other font and other parameters), in a fixed order.
func c07Sequence(seq []fmtAtom, visit func(c07Call)) {
	fc := &parser.FontConfig{DefaultFontID: "f1", Fonts: map[string]parser.Fonts{}}
	for _, f := range synthFonts {
		fc.Fonts[f.id] = parser.Fonts{Widths: f.widths, MaxLineLength: 10, NumLines: 2, CursorOverlapWidth: 0}
	}
	L := len(seq)
	for _, f := range synthFonts {
		text, toks := tokensOf(seq, f)
		longest := 0
		for _, t := range toks {
			if t.brk == "" {
				longest += t.width + f.w(" ")
			}
		}
		for _, numLines := range []int{1, 2, 3} {
			for _, overlap := range []int{0, 1, 3, 40} {
				if overlap == 40 && L > 3 {
					continue
				}
				for maxW := 1; maxW <= longest+1; maxW++ {
					out, err := fc.FormatText(text, maxW, overlap, f.id, numLines)
					visit(c07Call{text, toks, f, numLines, overlap, maxW, out, err})
				}
			}
		}
	}
}

// c07Compiled drives format() through the compiler (text statement and command
// argument) with parameters given positionally in both orders, by name and
// through the font config / parser defaults, and compares the emitted lines
// with the exported FormatText called with the resolved parameters.
func c07Compiled(r *harness.Run) {
	dir, err := os.MkdirTemp("", "pmc-c07-")
	if err != nil {
		r.Note("cannot create scratch dir: %v", err)
		return
	}
	defer os.RemoveAll(dir)
	// font config contents: the documented defaults come from the font entry (numLines missing -> 2)
	cfgs := []parser.FontConfig{
		{DefaultFontID: "f1", Fonts: map[string]parser.Fonts{
			"f1": {Widths: synthFonts[0].widths, MaxLineLength: 9, NumLines: 2, CursorOverlapWidth: 1},
			"f2": {Widths: synthFonts[1].widths, MaxLineLength: 14, NumLines: 3, CursorOverlapWidth: 0},
		}},
		{DefaultFontID: "f2", Fonts: map[string]parser.Fonts{
			"f1": {Widths: synthFonts[0].widths, MaxLineLength: 12, NumLines: 0, CursorOverlapWidth: 0},
			"f2": {Widths: synthFonts[1].widths, MaxLineLength: 8, NumLines: 1, CursorOverlapWidth: 4},
		}},
		{DefaultFontID: "f1", Fonts: map[string]parser.Fonts{
			"f1": {Widths: synthFonts[0].widths, MaxLineLength: 7, NumLines: 4, CursorOverlapWidth: 6},
			"f2": {Widths: synthFonts[1].widths, MaxLineLength: 30, NumLines: 2, CursorOverlapWidth: 2},
			"f3": {Widths: map[string]int{"default": 1}, MaxLineLength: 3, NumLines: 2},
		}},
	}
	// entries without maxLineLength (the length then comes from the caller) and with a cursor overlap that is not smaller than the entry's own length
	cfgs = append(cfgs, parser.FontConfig{DefaultFontID: "f1", Fonts: map[string]parser.Fonts{
		"f1": {Widths: synthFonts[0].widths, MaxLineLength: 0, NumLines: 2, CursorOverlapWidth: 3},
		"f2": {Widths: synthFonts[1].widths, MaxLineLength: 2, NumLines: 3, CursorOverlapWidth: 4},
	}})
	// two font ids that differ only by letter case (ids are exact names)
	cfgs = append(cfgs, parser.FontConfig{DefaultFontID: "F2", Fonts: map[string]parser.Fonts{
		"F2": {Widths: synthFonts[0].widths, MaxLineLength: 9, NumLines: 2, CursorOverlapWidth: 1},
		"f2": {Widths: synthFonts[1].widths, MaxLineLength: 14, NumLines: 3, CursorOverlapWidth: 0},
		"f1": {Widths: synthFonts[1].widths, MaxLineLength: 6, NumLines: 1, CursorOverlapWidth: 2},
		"f3": {Widths: synthFonts[0].widths, MaxLineLength: 11, NumLines: 2, CursorOverlapWidth: 0},
	}})
	for ci := range cfgs {
		c07CompiledWith(r, dir, ci, cfgs[ci])
	}
}

func c07CompiledWith(r *harness.Run, dir string, ci int, cfg parser.FontConfig) {
	b, _ := json.Marshal(cfg)
	fpath := filepath.Join(dir, fmt.Sprintf("fonts%d.json", ci))
	os.WriteFile(fpath, b, 0o644)
	text := `a bb cac é {P} a\pbb cac a bb\Ncac a bb`
	type spelling struct {
		args                   string
		font                   string
		maxLen, lines, overlap int // 0 = default
	}
	sp := []spelling{
		{``, "", 0, 0, 0},
		{`, "f2"`, "f2", 0, 0, 0},
		{`, "f2", 7`, "f2", 7, 0, 0},
		{`, 7`, "", 7, 0, 0},
		{`, 7, "f2"`, "f2", 7, 0, 0},
		{`, fontId="f2"`, "f2", 0, 0, 0},
		{`, maxLineLength=6`, "", 6, 0, 0},
		{`, numLines=3`, "", 0, 3, 0},
		{`, cursorOverlapWidth=3`, "", 0, 0, 3},
		{`, numLines=1, maxLineLength=8, cursorOverlapWidth=2, fontId="f2"`, "f2", 8, 1, 2},
		{`, "f2", numLines=1`, "f2", 0, 1, 0},
		{`, 8, cursorOverlapWidth=2`, "", 8, 0, 2},
		{`, "f2", 8, numLines=1, cursorOverlapWidth=2`, "f2", 8, 1, 2},
		{`, maxLineLength=0x6`, "", 6, 0, 0},
		{`, numLines=0x3, cursorOverlapWidth=0x3`, "", 0, 3, 3},
		{`, 0x7, "f2"`, "f2", 7, 0, 0},
		{`, "f2", 0x8, numLines=0x1`, "f2", 8, 1, 0},
	}
	for _, s := range sp {
		for _, defFont := range []string{"", "f2"} {
			for _, defLen := range []int{0, 11} {
				for _, origin := range []string{"text", "arg"} {
					font := s.font
					if font == "" {
						font = defFont
					}
					if font == "" {
						font = cfg.DefaultFontID
					}
					ml := s.maxLen
					if ml == 0 {
						ml = defLen
					}
					if ml == 0 {
						ml = cfg.Fonts[font].MaxLineLength
					}
					nl := s.lines
					if nl == 0 {
						nl = cfg.Fonts[font].NumLines
					}
					if nl <= 0 {
						nl = 2 // documented default when the font entry has no numLines
					}
					ov := s.overlap
					if ov == 0 {
						ov = cfg.Fonts[font].CursorOverlapWidth
					}
					var freshCfg parser.FontConfig
					json.Unmarshal(b, &freshCfg)
					want, _ := freshCfg.FormatText(text, ml, ov, font, nl)
					var src, label string
					if origin == "text" {
						src, label = fmt.Sprintf("text T {\n\tformat(\"%s\"%s)\n}\n", text, s.args), "T::"
					} else {
						src, label = fmt.Sprintf("script S {\n\tmsgbox(format(\"%s\"%s))\n}\n", text, s.args), "S_Text_0:"
					}
					res := comp.Compile(src, comp.Opts{FontPath: fpath, FontID: defFont, MaxLen: defLen})
					r.Add("evaluations", 1)
					r.Add("compiled_format_spellings", 1)
					r.Add("nontrivial", 1)
					if res.Err != nil || res.Panic != "" {
						r.Report(harness.Violation{Sig: "C07:compile:" + firstWords(fmt.Sprint(res.Err), 4), Summary: fmt.Sprintf("format() spelling rejected: %v %s\n  source: %q", res.Err, firstLine(res.Panic), src), Replay: map[string]interface{}{"source": src}})
						continue
					}
					var wantLines []string
					for _, l := range strings.Split(want+"$", "\n") {
						wantLines = append(wantLines, "\t.string \""+l+"\"")
					}
					idx := strings.Index(res.Out, label+"\n")
					got := ""
					if idx >= 0 {
						got = strings.TrimRight(res.Out[idx+len(label)+1:], "\n")
					}
					if got != strings.Join(wantLines, "\n") {
						r.Report(harness.Violation{Sig: "C07:compiled-differs:" + origin, Summary: fmt.Sprintf("format(%s) default font %q default length %d: emitted\n%s\nwant (FormatText with font=%s maxLineLength=%d numLines=%d overlap=%d)\n%s", s.args, defFont, defLen, got, font, ml, nl, ov, strings.Join(wantLines, "\n")),
							Replay: map[string]interface{}{"source": src, "font_config": cfg, "default_font": defFont, "default_length": defLen, "font_config_variant": ci}})
					}
				}
			}
		}
	}
	// Two format() calls in one file on the same words with different fonts / lengths: each must be
	// formatted as if it were alone (nothing may carry over from one call to the next).
	text2 := `a {P} bb{P} cac é {C R} a bb`
	type fp struct {
		font string
		ml   int
	}
	ps := []fp{{"f1", 9}, {"f2", 9}, {"f1", 13}, {"f2", 16}, {"f2", 7}}
	for i, a := range ps {
		for j, bb := range ps {
			if i == j {
				continue
			}
			src := fmt.Sprintf("text A {\n\tformat(\"%s\", \"%s\", %d)\n}\ntext B {\n\tformat(\"%s\", \"%s\", %d)\n}\n", text2, a.font, a.ml, text2, bb.font, bb.ml)
			res := comp.Compile(src, comp.Opts{FontPath: fpath})
			r.Add("evaluations", 1)
			r.Add("compiled_format_pairs", 1)
			r.Add("nontrivial", 1)
			if res.Err != nil || res.Panic != "" {
				r.Report(harness.Violation{Sig: "C07:compile-pair", Summary: fmt.Sprintf("two format() calls rejected: %v\n  source: %q", res.Err, src), Replay: map[string]interface{}{"source": src}})
				continue
			}
			for k, q := range []fp{a, bb} {
				var fresh parser.FontConfig // a fresh, unshared configuration
				json.Unmarshal(b, &fresh)
				nl := cfg.Fonts[q.font].NumLines
				if nl <= 0 {
					nl = 2 // documented default when the font entry has no numLines
				}
				want, _ := fresh.FormatText(text2, q.ml, cfg.Fonts[q.font].CursorOverlapWidth, q.font, nl)
				var wantLines []string
				for _, l := range strings.Split(want+"$", "\n") {
					wantLines = append(wantLines, "\t.string \""+l+"\"")
				}
				label := []string{"A", "B"}[k]
				got, _ := blockAfter(res.Out, label)
				if len(got) > 0 {
					got = got[1:]
				}
				if strings.Join(got, "\n") != strings.Join(wantLines, "\n") {
					r.Report(harness.Violation{Sig: "C07:compiled-pair-differs", Summary: fmt.Sprintf("text %s of a file with two format() calls (%v then %v) is emitted as\n%s\nalone it is formatted as\n%s", label, a, bb, strings.Join(got, "\n"), strings.Join(wantLines, "\n")),
						Replay: map[string]interface{}{"source": src, "font_config": cfg}})
				}
			}
		}
	}
}
