package checks

import (
	"fmt"
	"regexp"
	"strings"
	"sync"
	"time"

	"pmc/internal/comp"
	"pmc/internal/harness"
	"pmc/internal/machine"
)

// C08 — mapscripts emit complete, ordered, terminated tables whose entries resolve.

func init() { register(&Check{ID: "C08", Run: runC08}) }

const c08Bodies = 12

func c08Body(b int, e string) string {
	switch b {
	case 0:
		return ""
	case 1:
		return "c_" + e + "\n"
	case 2:
		return "if (flag(F_" + e + ")) {\nc_" + e + "\n} else {\nd_" + e + "\n}\n"
	case 3:
		return "while (flag(W_" + e + ")) {\nc_" + e + "\nif (flag(B_" + e + ")) {\nbreak\n}\n}\n"
	case 4:
		return "msgbox(\"text " + e + "\")\n"
	case 5:
		return "applymovement(1, moves(m_" + e + " u))\n"
	case 6:
		return "poryswitch(PV) {\nSEL: c_" + e + "\n_: d_" + e + "\n}\n"
	case 10: // the same characters as a plain text in every entry that uses this body (shared across inline scripts) ...
		return "msgbox(\"same text\")\n"
	case 11: // ... and as a braille text: same characters, another string type, never the same datum
		return "msgbox(braille\"same text\")\nmsgbox(\"own " + e + "\")\n"
	case 9: // several inline data of each kind in one inline script
		return "applymovement(1, moves(m_" + e + " u))\nmsgbox(\"one " + e + "\")\napplymovement(2, moves(n_" + e + " d))\nmsgbox(\"two " + e + "\")\n"
	case 8: // arguments with operator characters the assembler understands (incl. the printf verb character)
		return "setvar(V_" + e + ", V_" + e + " % 4)\nc_" + e + "(100%, %d, %s%%)\n"
	default:
		return "switch (var(V_" + e + ")) {\ncase 1:\nc_" + e + "\ndefault:\nd_" + e + "\n}\n"
	}
}

type c08TabEntry struct {
	inline bool
	body   int
	form   int // 0: simple var/value, 1: multi-token var and value
}

type c08Entry struct {
	kind  int // 0 plain, 1 inline, 2 table
	body  int
	table []c08TabEntry
}

// scriptBlock extracts the code block of script name: from its label to the
// next label that is not one of its chunk labels.
func scriptBlock(out, name string) (string, int) {
	lines := strings.Split(out, "\n")
	chunk := regexp.MustCompile(`^` + regexp.QuoteMeta(name) + `_\d+::?$`)
	count := 0
	var blk []string
	for i, l := range lines {
		if l == name+":" || l == name+"::" {
			count++
			if count > 1 {
				continue
			}
			blk = append(blk, l)
			for _, m := range lines[i+1:] {
				if strings.HasSuffix(m, ":") && !strings.HasPrefix(m, "\t") && !chunk.MatchString(m) {
					break
				}
				blk = append(blk, m)
			}
		}
	}
	for len(blk) > 0 && blk[len(blk)-1] == "" {
		blk = blk[:len(blk)-1]
	}
	return strings.Join(blk, "\n"), count
}

var c08Standalone sync.Map

func standaloneBlock(name, body string, opt bool, sw map[string]string) (string, error) {
	key := fmt.Sprintf("%s|%v|%s", name, opt, body)
	if v, ok := c08Standalone.Load(key); ok {
		return v.(string), nil
	}
	res := comp.Compile("script(local) "+name+" {\n"+body+"}\n", comp.Opts{Optimize: opt, Switches: sw})
	if res.Err != nil || res.Panic != "" {
		return "", fmt.Errorf("standalone script rejected: %v %s", res.Err, firstLine(res.Panic))
	}
	blk, _ := scriptBlock(res.Out, name)
	c08Standalone.Store(key, blk)
	return blk, nil
}

// c08Enumerate visits every mapscripts statement of the C08 family.
func c08Enumerate(r *harness.Run, maxTab, maxEntries int, visit func(entries []c08Entry, scope string, opt bool)) (int, int) {
	var tabOpts []c08TabEntry
	tabOpts = append(tabOpts, c08TabEntry{false, 0, 0}, c08TabEntry{false, 0, 1})
	for _, b := range []int{0, 1, 2, 4, 8} {
		tabOpts = append(tabOpts, c08TabEntry{true, b, b % 2})
	}
	var opts []c08Entry
	opts = append(opts, c08Entry{kind: 0}, c08Entry{kind: 3})
	for b := 0; b < c08Bodies; b++ {
		opts = append(opts, c08Entry{kind: 1, body: b})
	}
	var tabs [][]c08TabEntry
	var genTab func(cur []c08TabEntry, left int)
	genTab = func(cur []c08TabEntry, left int) {
		tabs = append(tabs, append([]c08TabEntry{}, cur...))
		if left == 0 {
			return
		}
		for _, o := range tabOpts {
			genTab(append(cur, o), left-1)
		}
	}
	genTab(nil, maxTab)
	for _, t := range tabs {
		opts = append(opts, c08Entry{kind: 2, table: t})
	}
	nO := uint64(len(opts))
	completed := -1
	for N := 0; N <= maxEntries && !r.Expired(); N++ {
		pow := uint64(1)
		for i := 0; i < N; i++ {
			pow *= nO
		}
		total := pow * 3 * 2
		done := r.Parallel(total, func(w int, idx uint64) {
			opt := idx%2 == 0
			x := idx / 2
			scope := c15Mods[x%3]
			x /= 3
			entries := make([]c08Entry, N)
			for i := range entries {
				entries[i] = opts[x%nO]
				x /= nO
			}
			visit(entries, scope, opt)
		})
		if done {
			completed = N
		}
	}
	return completed, len(opts)
}

func runC08(tier string) int {
	r := harness.NewRun("C08", "exploration", tier, budget(tier, 50*time.Second, 12*time.Minute))
	maxTab, maxEntries := 2, 3
	sw := map[string]string{"PV": "SEL"}
	completed, nOpts := c08Enumerate(r, maxTab, maxEntries, func(entries []c08Entry, scope string, opt bool) { c08Eval(r, entries, scope, opt, sw) })
	if tier == "thorough" {
		// longer tables with fewer entries per statement
		c2, n2 := c08Enumerate(r, 3, 2, func(entries []c08Entry, scope string, opt bool) { c08Eval(r, entries, scope, opt, sw) })
		r.Set("entry_options_with_tables_of_3", n2)
		r.Set("max_entries_completed_with_tables_of_3", c2)
		maxTab = 3
	}
	if completed < maxEntries {
		r.NotExhaustive(fmt.Sprintf("completed entry lists of length <= %d of planned <= %d", completed, maxEntries))
	}
	// the size dimension: headers with K entries and tables with K entries, for every K up to a bound far above the exhaustive one
	maxK := 40
	if tier == "thorough" {
		maxK = 120
	}
	type longJob struct {
		k, pattern int
		opt        bool
	}
	var longJobs []longJob
	for k := 3; k <= maxK; k++ {
		for pattern := 0; pattern < 6; pattern++ {
			longJobs = append(longJobs, longJob{k, pattern, true}, longJob{k, pattern, false})
		}
	}
	longDone := r.Parallel(uint64(len(longJobs)), func(w int, i uint64) {
		j := longJobs[i]
		tabEntry := func(n int) c08TabEntry {
			switch j.pattern % 3 {
			case 0:
				return c08TabEntry{false, 0, n % 2}
			case 1:
				return c08TabEntry{true, []int{1, 2, 4, 8}[n%4], n % 2}
			}
			if n%2 == 0 {
				return c08TabEntry{false, 0, 0}
			}
			return c08TabEntry{true, []int{0, 1, 4}[n%3], 1}
		}
		var entries []c08Entry
		if j.pattern < 3 {
			// one long table between two other entries
			var tab []c08TabEntry
			for n := 0; n < j.k; n++ {
				tab = append(tab, tabEntry(n))
			}
			entries = []c08Entry{{kind: 1, body: 1}, {kind: 2, table: tab}, {kind: 0}}
		} else {
			// a long header: K entries rotating over plain, inline and short tables
			for n := 0; n < j.k; n++ {
				switch n % 3 {
				case 0:
					entries = append(entries, c08Entry{kind: 0})
				case 1:
					entries = append(entries, c08Entry{kind: 1, body: n % c08Bodies})
				default:
					entries = append(entries, c08Entry{kind: 2, table: []c08TabEntry{tabEntry(n), tabEntry(n + 1)}})
				}
			}
		}
		r.Add("long_statements", 1)
		c08Eval(r, entries, "", j.opt, sw)
	})
	if !longDone {
		r.NotExhaustive("long mapscripts statements not completed")
	}
	r.Set("long_statements_max_entries", maxK)
	r.Set("max_entries_completed", completed)
	r.Set("entry_options", nOpts)
	r.Set("max_table_length", maxTab)
	r.Assume("an inline body must be emitted exactly like 'script(local) <name> { body }' (differential; C01 decides the behaviour of script statements)",
		"inline names are <map>_<TYPE> and <map>_<TYPE>_<index>; hoisted labels are compared by the data they denote, so a text shared between inline scripts may be owned by either")
	return r.Finish(r.Get("evaluations"), r.Get("nontrivial"),
		"every mapscripts statement with <= N entries over {plain, plain naming an inline script of the same statement, inline with 12 body kinds incl. several moves() lists and texts in one inline script and the same characters as a plain and as a braille text in different inline scripts, arguments that contain '%', table with <= T entries over plain / inline entries with simple and multi-token var/value (the multi-token ones mention constants)} x scope {none, global, local} x optimize on/off, incl. the empty statement and empty tables and tables whose later rows repeat an earlier row exactly; plus tables with K entries and headers with K entries for every K up to the bound in the coverage; each statement also compiled with every dispensable white space removed; header, table and inline-script blocks are compared with the generator's expectation and with the standalone compilation of the same body; non-trivial = the statement has a table and an inline entry")
}

func c08Eval(r *harness.Run, entries []c08Entry, scope string, opt bool, sw map[string]string) {
	var sb strings.Builder
	sb.WriteString("const KC = 1\nconst KD = 2\n")
	sb.WriteString("mapscripts" + scope + " M {\n")
	var headPlain, headTab []string
	type inl struct{ name, body string }
	var inlines []inl
	type tab struct {
		name  string
		lines []string
	}
	var tables []tab
	hasTable, hasInline := false, false
	var refs []string // labels that label-form entries name and the statement does not define itself
	for i, e := range entries {
		T := fmt.Sprintf("T%d", i)
		switch e.kind {
		case 3:
			// a label entry that names the inline script of the first inline entry of this statement (one script used for
			// two map script types); without such an entry it names an external label
			target := fmt.Sprintf("L%d", i)
			for j, e2 := range entries {
				if e2.kind == 1 {
					target = fmt.Sprintf("M_T%d", j)
					break
				}
			}
			if target == fmt.Sprintf("L%d", i) {
				refs = append(refs, target)
			}
			sb.WriteString("\t" + T + ": " + target + "\n")
			headPlain = append(headPlain, "\tmap_script "+T+", "+target)
		case 0:
			// (plain label entries alternate between two scripts: several map script types may name the same script)
			refs = append(refs, "L"+fmt.Sprint(i%2))
			sb.WriteString("\t" + T + ": L" + fmt.Sprint(i%2) + "\n")
			headPlain = append(headPlain, "\tmap_script "+T+", L"+fmt.Sprint(i%2))
		case 1:
			body := c08Body(e.body, T)
			sb.WriteString("\t" + T + " {\n" + body + "\t}\n")
			headPlain = append(headPlain, "\tmap_script "+T+", M_"+T)
			inlines = append(inlines, inl{"M_" + T, body})
			hasInline = true
		default:
			hasTable = true
			sb.WriteString("\t" + T + " [\n")
			tb := tab{name: "M_" + T}
			tb.lines = append(tb.lines, tb.name+":")
			var after []inl
			for j, te := range e.table {
				v, n, ev, en := "VAR_"+T, fmt.Sprint(j), "VAR_"+T, fmt.Sprint(j)
				if te.form == 1 {
					// multi-token var and value that mention constants (const KC = 1, const KD = 2)
					v, ev = "VAR_"+T+" + ( KC )", "VAR_"+T+" + ( 1 )"
					n, en = fmt.Sprintf("%d * KD %% 5", j), fmt.Sprintf("%d * 2 %% 5", j)
					if j%2 == 1 {
						// ... or a keyword value / a value that starts with an operator (passed through like any other)
						n = []string{"TRUE", "FALSE", "- KC", "! VAR_X"}[(i+j/2)%4]
						en = strings.ReplaceAll(n, "KC", "1")
					}
				}
				if te.inline {
					name := fmt.Sprintf("M_%s_%d", T, j)
					body := c08Body(te.body, fmt.Sprintf("%s_%d", T, j))
					sb.WriteString("\t\t" + v + ", " + n + " {\n" + body + "\t\t}\n")
					tb.lines = append(tb.lines, "\tmap_script_2 "+ev+", "+en+", "+name)
					after = append(after, inl{name, body})
					hasInline = true
				} else {
					jj := j
					if te.form == 0 && j >= 2 && len(e.table)%2 == 1 && i == 1 {
						// (round 13) in tables of odd length that are the second entry of their statement, the third and later simple
						// rows repeat row 0 or 1 exactly - var, value and script: a table lists every row it was given, repeated or not
						jj = j % 2
						n, en = fmt.Sprint(jj), fmt.Sprint(jj)
					}
					if name := fmt.Sprintf("LT%d_%d", i, jj); jj == j || !strings.Contains(strings.Join(refs, " ")+" ", name+" ") {
						refs = append(refs, name)
					}
					sb.WriteString(fmt.Sprintf("\t\t%s, %s: LT%d_%d\n", v, n, i, jj))
					tb.lines = append(tb.lines, fmt.Sprintf("\tmap_script_2 %s, %s, LT%d_%d", ev, en, i, jj))
				}
			}
			tb.lines = append(tb.lines, "\t.2byte 0")
			sb.WriteString("\t]\n")
			headTab = append(headTab, "\tmap_script "+T+", M_"+T)
			tables = append(tables, tb)
			inlines = append(inlines, after...)
		}
	}
	sb.WriteString("}\n")
	src := sb.String()
	o := comp.Opts{Optimize: opt, Switches: sw}
	if c04Tap != nil {
		fp := &fileProgram{Desc: "C08 mapscripts statement", Src: src, Opts: o, UserLabels: map[string]bool{}, DataLabels: map[string]bool{"M": true}, External: map[string]bool{}}
		for _, in := range inlines {
			fp.Owners = append(fp.Owners, in.name)
		}
		for _, tb := range tables {
			fp.DataLabels[tb.name] = true
		}
		for i := range entries {
			fp.External[fmt.Sprintf("L%d", i)] = true
			for j := 0; j < 4; j++ {
				fp.External[fmt.Sprintf("LT%d_%d", i, j)] = true
			}
		}
		c04Tap(fp)
		return
	}
	res := comp.Compile(src, o)
	r.Add("evaluations", 1)
	if hasTable && hasInline {
		r.Add("nontrivial", 1)
	}
	fail := func(sig, what string) {
		r.Report(harness.Violation{Sig: sig, Summary: fmt.Sprintf("%s (optimize=%v)\n  source: %q", what, opt, src), Replay: map[string]interface{}{"source": src, "optimize": opt, "problem": what, "output": res.Out},
			Recheck: func() bool {
				r2 := comp.Compile(src, o)
				return r2.Out == res.Out && (r2.Err == nil) == (res.Err == nil)
			}})
	}
	if res.Err != nil || res.Panic != "" {
		fail("C08:rejected:"+firstWords(fmt.Sprint(res.Err), 5), fmt.Sprintf("well-formed mapscripts rejected: %v %s", res.Err, firstLine(res.Panic)))
		return
	}
	// the same statement with every dispensable white space removed ('T0[', 'LT0_0]', 'VAR_T0,0{') is the same statement
	if !opt {
		// (layout is independent of the optimizer: one setting suffices)
	} else if tight := comp.Compile(tightLayout(src), o); tight.Err != nil || tight.Panic != "" || tight.Out != res.Out {
		fail("C08:tight-layout", fmt.Sprintf("the statement written without dispensable white space gives another result (%v %s): %s", tight.Err, firstLine(tight.Panic), firstDiff(tight.Out, res.Out)))
	}
	// ... and written on one source line and compiled with line markers (with a path): apart from the marker lines the same output
	size := len(entries)
	for _, e := range entries {
		size += len(e.table)
	}
	if opt && size <= 4 { // (statements with up to 4 header and table entries in all: enough for any two entries to share a line)
		om := o
		om.LineMarkers, om.Path = true, "data/maps/M/scripts.pory"
		if one := comp.Compile(oneLine(src), om); one.Err != nil || one.Panic != "" || dropMarkerLines(one.Out) != res.Out {
			fail("C08:one-line-with-markers", fmt.Sprintf("the statement written on one line and compiled with line markers gives another result (%v %s): %s", one.Err, firstLine(one.Panic), firstDiff(dropMarkerLines(one.Out), res.Out)))
		}
	}
	// the labels that label-form entries name may be label statements of a script of the same file (alternately plain and
	// global): naming a label is not defining it, so the file is accepted and the statement's output stays as it is
	if opt && len(refs) > 0 {
		ext := "script Ext {\n"
		for i, l := range refs {
			if i%2 == 0 {
				ext += "\t" + l + ":\n\tx" + fmt.Sprint(i) + "\n"
			} else {
				ext += "\t" + l + "(global):\n\tx" + fmt.Sprint(i) + "\n"
			}
		}
		ext += "}\n"
		orders := []string{src + ext, ext + src}
		for _, both := range orders[len(src)%2 : len(src)%2+1] { // the other script after / before the statement, alternating
			r2 := comp.Compile(both, o)
			if r2.Err != nil || r2.Panic != "" {
				fail("C08:label-entry-target-defined:"+firstWords(fmt.Sprint(r2.Err), 5), fmt.Sprintf("label entries name label statements of a script of the same file: rejected: %v %s\n  file: %q", r2.Err, firstLine(r2.Panic), both))
			} else {
				// header, tables and inline scripts are the same blocks (hoisted data moves behind the other script: not compared)
				names := []string{"M"}
				for _, tb := range tables {
					names = append(names, tb.name)
				}
				same := true
				for _, n := range names {
					a, _ := blockAfter(res.Out, n)
					b, _ := blockAfter(r2.Out, n)
					same = same && strings.Join(a, "\n") == strings.Join(b, "\n")
				}
				for _, in := range inlines {
					a, na := scriptBlock(res.Out, in.name)
					b, nb := scriptBlock(r2.Out, in.name)
					same = same && a == b && na == nb
				}
				if !same {
					fail("C08:label-entry-target-defined:output", fmt.Sprintf("the statement's blocks change when the labels its entries name are label statements of another script of the file\n  file: %q", both))
				}
			}
		}
	}
	// header
	head := "M::"
	if !c15Global(scope, true) {
		head = "M:"
	}
	wantHead := append(append([]string{head}, headPlain...), headTab...)
	wantHead = append(wantHead, "\t.byte 0")
	gotHead, ok := blockAfter(res.Out, "M")
	if !ok || strings.Join(gotHead, "\n") != strings.Join(wantHead, "\n") {
		fail("C08:header", fmt.Sprintf("header block %q, want %q", gotHead, wantHead))
	}
	if !strings.HasPrefix(res.Out, head+"\n") {
		fail("C08:header-first", "the header is not the first block of the statement")
	}
	for _, tb := range tables {
		got, ok := blockAfter(res.Out, tb.name)
		if !ok || strings.Join(got, "\n") != strings.Join(tb.lines, "\n") {
			fail("C08:table", fmt.Sprintf("table block %q, want %q", got, tb.lines))
		}
	}
	for _, in := range inlines {
		blk, n := scriptBlock(res.Out, in.name)
		if n != 1 {
			fail("C08:inline-count", fmt.Sprintf("inline script %s is defined %d times", in.name, n))
			continue
		}
		want, err := standaloneBlock(in.name, in.body, opt, sw)
		if err != nil {
			fail("C08:standalone", err.Error())
			continue
		}
		// hoisted labels are replaced by the data they denote: which script owns a shared text is not part of the comparison
		blk, want = c08Denote(res.Out, blk), c08DenoteStandalone(in.name, in.body, opt, sw, want)
		if blk != want {
			// Not byte-identical: the property only asks for the same behaviour, so fall back to the
			// product exploration of the two blocks (same entry label, all game states).
			ro := machine.ReadOpts{Owners: []string{in.name}}
			pa, pb := machine.ReadAsm(want+"\n", ro), machine.ReadAsm(blk+"\n", ro)
			_, v := machine.Explore(pa, pb, in.name, in.name, machine.Lazy)
			r.Add("inline_blocks_compared_by_behaviour", 1)
			if v != nil {
				fail("C08:inline-differs", fmt.Sprintf("inline script %s emitted as %q; the same body as a script statement gives %q and behaves differently: %s", in.name, blk, want, v))
			}
		}
	}
	// every label of the output is accounted for, table/inline labels exactly once
	defs := map[string]int{}
	for _, l := range asmLines(res.Out) {
		if l.isLabel {
			defs[l.name]++
			if l.name != "M" && l.global {
				fail("C08:generated-global", "generated label "+l.name+" is exported")
			}
		}
	}
	for _, tb := range tables {
		if defs[tb.name] != 1 {
			fail("C08:table-count", fmt.Sprintf("table %s defined %d times", tb.name, defs[tb.name]))
		}
	}
	if r.WantSample() && hasTable && hasInline && len(entries) == 3 {
		r.Sample(map[string]interface{}{"source": src, "optimize": opt, "header": wantHead})
	}
}

// c08Denote replaces every hoisted label in blk by the directive lines it denotes in out.
func c08Denote(out, blk string) string {
	return hoistedRe.ReplaceAllStringFunc(blk, func(label string) string {
		b, ok := blockAfter(out, label)
		if !ok || len(b) < 2 {
			return "<hoisted: undefined " + label + ">"
		}
		var data []string
		for _, l := range b[1:] {
			data = append(data, strings.TrimSpace(l))
		}
		return "<hoisted: " + strings.Join(data, " | ") + ">"
	})
}

var c08StandaloneOut sync.Map

// c08DenoteStandalone does the same for the standalone compilation of the body (whose full output is needed for the data).
func c08DenoteStandalone(name, body string, opt bool, sw map[string]string, blk string) string {
	key := fmt.Sprintf("%s|%v|%s", name, opt, body)
	v, ok := c08StandaloneOut.Load(key)
	if !ok {
		res := comp.Compile("script(local) "+name+" {\n"+body+"}\n", comp.Opts{Optimize: opt, Switches: sw})
		v = res.Out
		c08StandaloneOut.Store(key, v)
	}
	return c08Denote(v.(string), blk)
}
