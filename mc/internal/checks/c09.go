package checks

import (
	"encoding/json"
	"fmt"
	"os"
	"path/filepath"
	"regexp"
	"strings"
	"time"

	"github.com/huderlem/poryscript/parser"

	"pmc/internal/comp"
	"pmc/internal/harness"
)

// C09 — text is emitted line by line with exactly one correct terminator.

func init() { register(&Check{ID: "C09", Run: runC09}) }

var c09Chars = []string{"a", "é", " ", "$", `\`, "0", "n", "p", "{", "}", "\n\t\t", "#", "/"} // "#" and "/": comment markers inside a literal are text

var c09Types = []string{"", "ascii", "braille", "custom", "string"} // "string": the default directive written as an explicit type (no terminator is added to explicit types other than ascii and braille)

const c09Origins = 17

func terminatorOf(typ string) string {
	switch typ {
	case "", "braille":
		return "$"
	case "ascii":
		return `\0`
	}
	return ""
}

// directiveLines extracts the directive lines that follow label in out.
func directiveLines(out, label string) ([][2]string, bool) {
	lines := strings.Split(out, "\n")
	for i, l := range lines {
		if l == label+":" || l == label+"::" {
			var res [][2]string
			for _, d := range lines[i+1:] {
				if !strings.HasPrefix(d, "\t.") {
					break
				}
				rest := d[2:]
				sp := strings.Index(rest, " ")
				if sp < 0 || !strings.HasPrefix(rest[sp+1:], "\"") || !strings.HasSuffix(rest, "\"") || len(rest[sp+1:]) < 2 {
					return nil, false
				}
				res = append(res, [2]string{rest[:sp], rest[sp+2 : len(rest)-1]})
			}
			return res, true
		}
	}
	return nil, false
}

// collapseLiteralNewlines: a newline inside a literal, together with all the
// white space that follows it, stands for one space.
func collapseLiteralNewlines(p string) string {
	var sb strings.Builder
	for i := 0; i < len(p); i++ {
		if p[i] == '\n' {
			for i+1 < len(p) && (p[i+1] == ' ' || p[i+1] == '\t' || p[i+1] == '\n' || p[i+1] == '\r') {
				i++
			}
			sb.WriteByte(' ')
			continue
		}
		sb.WriteByte(p[i])
	}
	return sb.String()
}

// literalSrc prints one string part; a raw newline inside it stays raw.
func quote(p string) string { return "\"" + p + "\"" }

var c09IdentRe = regexp.MustCompile(`^[A-Za-z_][A-Za-z0-9_]*$`)

// q is an AutoVar command: its inline text argument then stands inside a condition.
var c09Cmd = parser.CommandConfig{AutoVarCommands: map[string]parser.AutoVarCommand{"q": {VarName: "VAR_RESULT"}}}

func runC09(tier string) int {
	r := harness.NewRun("C09", "exploration", tier, budget(tier, 50*time.Second, 12*time.Minute))
	maxLen := 3
	if tier == "thorough" {
		maxLen = 4
	}
	dir, err := os.MkdirTemp("", "pmc-c09-")
	if err != nil {
		fmt.Println("HARNESS-ERROR: cannot create scratch dir")
		return 2
	}
	defer os.RemoveAll(dir)
	cfg := parser.FontConfig{DefaultFontID: "f1", Fonts: map[string]parser.Fonts{
		"f1": {Widths: map[string]int{" ": 1, "p": 0, "default": 2}, MaxLineLength: 5, NumLines: 2, CursorOverlapWidth: 0}, // 'p' is 0 pixels wide: a word may have no width at all
	}}
	b, _ := json.Marshal(cfg)
	fpath := filepath.Join(dir, "fonts.json")
	os.WriteFile(fpath, b, 0o644)

	// Enumerate (parts) with total length <= maxLen, 1..3 parts.
	type item struct{ parts []string }
	var items []item
	nC := len(c09Chars)
	var gen func(parts []string, cur string, left, maxParts int)
	gen = func(parts []string, cur string, left, maxParts int) {
		// close the current part here
		done := append(append([]string{}, parts...), cur)
		items = append(items, item{done})
		if len(done) < maxParts {
			gen(done, "", left, maxParts)
		}
		if left > 0 {
			for c := 0; c < nC; c++ {
				gen(parts, cur+c09Chars[c], left-1, maxParts)
			}
		}
	}
	gen(nil, "", maxLen, 3)
	// gen produces duplicates of (parts) when closing then reopening with the same remaining budget; dedupe.
	seen := map[string]bool{}
	uniq := items[:0]
	for _, it := range items {
		k := strings.Join(it.parts, "\x00")
		if !seen[k] {
			seen[k] = true
			uniq = append(uniq, it)
		}
	}
	items = uniq
	r.Set("contents_x_part_splits", len(items))
	total := uint64(len(items)) * uint64(len(c09Types)) * c09Origins * 4
	done := r.Parallel(total, func(w int, idx uint64) {
		layout := int(idx % 4)
		x := idx / 4
		origin := int(x % c09Origins)
		x /= c09Origins
		typ := c09Types[x%uint64(len(c09Types))]
		it := items[x/uint64(len(c09Types))]
		// source text of the literal
		sep := " "
		if layout == 1 || layout == 3 {
			sep = "\n\t\t"
		}
		if layout == 3 {
			// the file has Windows line endings throughout (only for literals that span lines)
			multi := len(it.parts) >= 2
			for _, p := range it.parts {
				multi = multi || strings.Contains(p, "\n")
			}
			if !multi {
				return
			}
		}
		if layout == 2 {
			if len(it.parts) < 2 {
				return
			}
			sep = " // c1\n\t\t# c2\n\n\t\t// c3\n\t\t"
		}
		var qs []string
		for _, p := range it.parts {
			qs = append(qs, quote(p))
		}
		lit := typ + strings.Join(qs, sep)
		// the content the lexer documents: a newline inside a literal (with the indentation that follows) is one space
		norm := make([]string, len(it.parts))
		for i, p := range it.parts {
			norm[i] = collapseLiteralNewlines(p)
		}
		term := terminatorOf(typ)
		whole := strings.Join(norm, "")
		if term != "" && strings.HasSuffix(whole, term) && !strings.HasSuffix(norm[len(norm)-1], term) {
			return // terminator straddles two parts: the property can be read both ways
		}
		var src, label string
		var sw map[string]string
		formatted := false
		switch origin {
		case 0:
			src, label = "text T {\n\t"+lit+"\n}\n", "T"
		case 1:
			src, label = "script S {\n\tmsgbox("+lit+")\n}\n", "S_Text_0"
		case 2:
			src, label, formatted = "text T {\n\tformat("+lit+")\n}\n", "T", true
		case 3:
			src, label, formatted = "script S {\n\tmsgbox(format("+lit+"), X)\n}\n", "S_Text_0", true
		case 4: // poryswitch text case selected directly (colon form)
			src, label, sw = "text T {\n\tporyswitch(V) {\n\t\tA: "+lit+"\n\t\t_: \"other\"\n\t}\n}\n", "T", map[string]string{"V": "A"}
		case 5: // selected through '_'
			src, label, sw = "text T {\n\tporyswitch(V) {\n\t\tA: \"other\"\n\t\t_: "+lit+"\n\t}\n}\n", "T", map[string]string{"V": "B"}
		case 6: // brace form, selected directly
			src, label, sw = "text T {\n\tporyswitch(V) {\n\t\t_ { \"other\" }\n\t\tA { "+lit+" }\n\t}\n}\n", "T", map[string]string{"V": "A"}
		case 7: // inline text inside a control construct, second argument
			src, label = "script S {\n\tif (flag(F)) {\n\t\tmsgbox(X, "+lit+")\n\t}\n}\n", "S_Text_0"
		case 8: // after a typed inline text in the same command
			src, label = "script S {\n\tmsgbox(ascii\"first arg\", "+lit+")\n}\n", "S_Text_1"
		case 9: // before a typed inline text in the same command
			src, label = "script S {\n\tmsgbox("+lit+", custom\"second arg\", X)\n}\n", "S_Text_0"
		case 10: // after a typed inline text in the previous command and a typed text statement
			src, label = "text T0 {\n\tbraille\"first arg\"\n}\nscript S {\n\ta(custom\"first arg\")\n\tb("+lit+")\n}\n", "S_Text_1"
		case 11: // argument of an AutoVar command that is the middle operand of an && chain
			src, label = "script S {\n\tif (flag(A) && q("+lit+") && var(B) == 2) {\n\t\tx\n\t}\n}\n", "S_Text_0"
		case 12: // middle operand, && then ||, loop condition
			src, label = "script S {\n\twhile (flag(A) && q("+lit+") || flag(C)) {\n\t\tx\n\t}\n}\n", "S_Text_0"
		case 13: // first operand with a comparison, || then &&
			src, label = "script S {\n\tif (q("+lit+") == 1 || flag(A) && flag(B)) {\n\t\tx\n\t}\n}\n", "S_Text_0"
		case 14: // AutoVar switch operand
			src, label = "script S {\n\tswitch (q("+lit+")) {\n\t\tcase 1:\n\t\t\tx\n\t}\n}\n", "S_Text_0"
		case 16: // after a plain inline text that is spelled like this text's type followed by its content
			if typ == "" {
				return
			}
			src, label = "script S {\n\ta("+quote(typ+strings.Join(it.parts, ""))+")\n\tb("+lit+")\n}\n", "S_Text_1"
		default: // negated last operand of a do...while condition, inside a group
			src, label = "script S {\n\tdo {\n\t\tx\n\t} while (flag(A) || (flag(B) && !q("+lit+")))\n}\n", "S_Text_0"
		}
		// when the whole content is spelled like an identifier, a constant of that name is defined first (text content is not a constant position)
		if id := strings.Join(norm, ""); c09IdentRe.MatchString(id) {
			src = "const " + id + " = replaced_" + id + "\n" + src
		}
		if layout == 3 {
			src = strings.ReplaceAll(src, "\n", "\r\n")
		}
		res := comp.Compile(src, comp.Opts{FontPath: fpath, Switches: sw, Cmd: c09Cmd})
		r.Add("evaluations", 1)
		if res.Panic != "" {
			r.Report(harness.Violation{Sig: "C09:panic", Summary: "panic: " + firstLine(res.Panic) + fmt.Sprintf("\n  source: %q", src), Replay: map[string]interface{}{"source": src, "switches": sw}})
			return
		}
		if res.Err != nil {
			r.Add("rejected", 1)
			r.Report(harness.Violation{Sig: fmt.Sprintf("C09:rejected:origin%d:%s", origin, firstWords(res.Err.Error(), 5)), Summary: fmt.Sprintf("text rejected: %v\n  source: %q", res.Err, src), Replay: map[string]interface{}{"source": src, "switches": sw, "error": res.Err.Error()}})
			return
		}
		// expected lines
		var want []string
		if formatted {
			var fresh parser.FontConfig // never shared between goroutines or calls
			json.Unmarshal(b, &fresh)
			f, _ := fresh.FormatText(strings.Join(norm, "\n"), 5, 0, "f1", 2)
			want = strings.Split(f, "\n")
		} else {
			want = append([]string{}, norm...)
		}
		joined := strings.Join(want, "\n")
		termAppended := false
		if term != "" && !strings.HasSuffix(joined, term) {
			want[len(want)-1] += term
			termAppended = true
		}
		dirName := "string"
		if typ != "" {
			dirName = typ
		}
		got, ok := directiveLines(res.Out, label)
		problem := ""
		if !ok {
			problem = "label " + label + " or its directives not found"
		} else if len(got) != len(want) {
			problem = fmt.Sprintf("%d directives emitted, %d source lines", len(got), len(want))
		} else {
			for i := range got {
				if got[i][0] != dirName {
					problem = fmt.Sprintf("directive .%s, want .%s", got[i][0], dirName)
					break
				}
				if got[i][1] != want[i] {
					problem = fmt.Sprintf("line %d payload %q, want %q", i, got[i][1], want[i])
					break
				}
			}
		}
		if formatted && problem == "" {
			// independent of FormatText: format() only decides where lines break. Every directive but the last ends in a
			// line-break escape, and with the breaks read as blanks the words are the words of the content, in order.
			var sb strings.Builder
			for i, g := range got {
				line := g[1]
				if i < len(got)-1 {
					if !strings.HasSuffix(line, `\n`) && !strings.HasSuffix(line, `\l`) && !strings.HasSuffix(line, `\p`) {
						problem = fmt.Sprintf("formatted line %d (%q) does not end in a line break although the text goes on", i, line)
						break
					}
				}
				sb.WriteString(line)
			}
			if problem == "" {
				words := func(t string) string {
					for _, br := range []string{`\n`, `\l`, `\p`, "\n"} {
						t = strings.ReplaceAll(t, br, " ")
					}
					return strings.Join(strings.Fields(t), " ")
				}
				// (a terminator that was appended - the formatted text did not end in it - is taken off again)
				gotText, wantText := sb.String(), strings.Join(norm, " ")
				if termAppended {
					gotText = strings.TrimSuffix(gotText, term)
				}
				if a, b := words(gotText), words(wantText); a != b {
					problem = fmt.Sprintf("formatted words %q, words of the content %q", a, b)
				}
			}
		}
		if len(it.parts) >= 2 && typ != "" {
			r.Add("nontrivial", 1)
		}
		if problem != "" {
			s2, sw2 := src, sw
			r.Report(harness.Violation{
				Sig:     fmt.Sprintf("C09:origin%d:%s", origin, firstWords(problem, 2)),
				Summary: fmt.Sprintf("origin=%d type=%q parts=%q: %s\n  source: %q\n  output: %q", origin, typ, it.parts, problem, src, res.Out),
				Replay:  map[string]interface{}{"source": src, "switches": sw, "want_lines": want, "directive": dirName, "output": res.Out, "problem": problem},
				Recheck: func() bool {
					r2 := comp.Compile(s2, comp.Opts{FontPath: fpath, Switches: sw2, Cmd: c09Cmd})
					return r2.Out == res.Out
				},
			})
		} else if r.WantSample() && len(it.parts) == 3 && typ == "ascii" && origin == 5 {
			r.Sample(map[string]interface{}{"source": src, "switches": sw, "directives": got})
		}
	})
	// the size dimension: texts of K parts for every K up to a bound, in a text statement and inline, every string type
	maxK := 60
	if tier == "thorough" {
		maxK = 300
	}
	longDone := r.Parallel(uint64(maxK)*uint64(len(c09Types))*2, func(w int, idx uint64) {
		inline := idx%2 == 1
		x := idx / 2
		typ := c09Types[x%uint64(len(c09Types))]
		k := int(x/uint64(len(c09Types))) + 4
		var qs, want []string
		for i := 0; i < k; i++ {
			p := fmt.Sprintf("part %d é", i)
			if i < k-1 {
				p += []string{`\n`, `\l`, `\p`}[i%3]
			}
			qs = append(qs, quote(p))
			want = append(want, p)
		}
		want[k-1] += terminatorOf(typ)
		lit := typ + strings.Join(qs, "\n\t\t")
		src, label := "text T {\n\t"+lit+"\n}\n", "T"
		if inline {
			src, label = "script S {\n\tmsgbox("+lit+", X)\n}\n", "S_Text_0"
		}
		res := comp.Compile(src, comp.Opts{FontPath: fpath})
		r.Add("evaluations", 1)
		r.Add("nontrivial", 1)
		r.Add("long_texts", 1)
		dirName := "string"
		if typ != "" {
			dirName = typ
		}
		got, ok := directiveLines(res.Out, label)
		good := res.Err == nil && res.Panic == "" && ok && len(got) == len(want)
		if good {
			for i := range got {
				good = good && got[i][0] == dirName && got[i][1] == want[i]
			}
		}
		if !good {
			r.Report(harness.Violation{Sig: "C09:long-text", Summary: fmt.Sprintf("text of %d parts (type %q, inline=%v): error %v, %d directives", k, typ, inline, res.Err, len(got)), Replay: map[string]interface{}{"source": src, "want_lines": want, "directive": dirName, "output": res.Out}})
		}
	})
	// dictionary sweep: every identifier-like literal of the compiler's own source as the whole content of a text and as a
	// word of it, every string type, as a text statement, inline and formatted
	words := dictIdents()
	sweepDone := r.Parallel(uint64(len(words))*uint64(len(c09Types))*6, func(w int, idx uint64) {
		form := int(idx % 6)
		x := idx / 6
		typ := c09Types[x%uint64(len(c09Types))]
		word := words[x/uint64(len(c09Types))]
		content := word
		if form >= 3 {
			content = "a " + word + " b"
		}
		lit := typ + quote(content)
		var src, label string
		formatted := false
		switch form % 3 {
		case 0:
			src, label = "text T {\n\t"+lit+"\n}\n", "T"
		case 1:
			src, label = "script S {\n\tmsgbox("+lit+")\n}\n", "S_Text_0"
		default:
			src, label, formatted = "script S {\n\tmsgbox(format("+lit+", \"f1\", 100))\n}\n", "S_Text_0", true
		}
		_ = formatted
		src = "const " + word + " = replaced_" + word + "\n" + src
		res := comp.Compile(src, comp.Opts{FontPath: fpath})
		r.Add("evaluations", 1)
		r.Add("dictionary_sweep", 1)
		dirName := "string"
		if typ != "" {
			dirName = typ
		}
		want := content + terminatorOf(typ)
		got, ok := directiveLines(res.Out, label)
		if res.Err != nil || res.Panic != "" || !ok || len(got) != 1 || got[0][0] != dirName || got[0][1] != want {
			r.Report(harness.Violation{Sig: fmt.Sprintf("C09:dictionary:form%d", form%3), Summary: fmt.Sprintf("text %s: error %v; directives %v, want .%s %q", lit, res.Err, got, dirName, want), Replay: map[string]interface{}{"source": src, "want_lines": []string{want}, "directive": dirName, "output": res.Out}})
		}
	})
	if !done || !longDone || !sweepDone {
		r.NotExhaustive("enumeration not completed within the budget")
	}
	r.Set("dictionary_words", len(words))
	r.Set("long_text_max_parts", maxK+3)
	r.Set("max_content_length", maxLen)
	r.Set("origins", c09Origins)
	r.Assume("a newline inside a literal (and the indentation after it) stands for one space, as the lexer documents",
		"contents whose terminator would straddle two parts are not generated (the property can be read both ways there)",
		"for format() origins the source lines are the lines of the exported FormatText's result (its content is C07's business)")
	return r.Finish(r.Get("evaluations"), r.Get("nontrivial"),
		"every content of total length <= L over {a, é, space, $, \\, 0, n, p, {, }, #, /, newline-inside-literal} split into 1-3 literal parts x 4 layouts (same line / one part per line / several comment lines between the parts / one part per line in a file with Windows line endings) x 5 string types (none, ascii, braille, a custom one, and the default directive's own name) x 17 origins (after a plain text spelled like the type plus the content, argument of an AutoVar command standing first / in the middle / last in &&- and ||-chains of if, while and do...while conditions and as a switch operand, text statement, inline argument, format() of each, poryswitch case selected directly / through '_' / brace form, argument inside an if, after / before a typed inline text in the same command, after typed texts elsewhere); plus every identifier-like literal of the compiler's own source as a whole text and as a word of a text (statement, inline, formatted; every type); plus texts of K parts for every K up to the bound in the coverage (statement and inline, every string type); a constant named like the content is defined first whenever the content is spelled like an identifier; non-trivial = >= 2 parts and a string type")
}
