package checks

import (
	"fmt"
	"strings"
	"time"

	"github.com/huderlem/poryscript/parser"

	"pmc/internal/comp"
	"pmc/internal/harness"
)

// C10 — commands pass through verbatim, in order, with their argument tokens.

func init() { register(&Check{ID: "C10", Run: runC10}) }

type argTok struct {
	src  string // source spelling
	out  string // expected spelling in the output
	kind int    // 0 plain, 1 '(', 2 ')', 3 ',', 4 whole-argument datum (inline text / moves)
}

var c10Alphabet = []argTok{
	{"a", "a", 0}, {"é1", "é1", 0}, {"if", "if", 0}, {"var", "var", 0}, {"TRUE", "TRUE", 0}, {"local", "local", 0}, {"global", "global", 0},
	{"5", "5", 0}, {"-1", "-1", 0}, {"0x1F", "0x1F", 0}, {"+", "+", 0}, {"*", "*", 0}, {"==", "==", 0}, {"<", "<", 0}, {"!", "!", 0}, {".", ".", 0}, {"%", "%", 0},
	{"(", "(", 1}, {")", ")", 2}, {",", ",", 3},
	{"K", "5", 0}, {"K2", "1 + 2", 0},
	{`"hi"`, "S_Text_0", 4}, {"moves(u d)", "S_Movement_0", 4},
	// the same text written in two parts with a run of comment lines between them (one literal, one label)
	{"\"h\" // c1\n\t\t# c2\n\t\t// c3\n\t\t\"i\"", "S_Text_0", 4},
	// a typed text whose content ends in a character of its terminator
	{`ascii"h0"`, "S_Text_0", 4},
}

// c10TextBlocks: the hoisted block of each text token (X = the label number expected in the context).
var c10TextBlocks = map[string]string{
	`"hi"`: "S_Text_X:\n\t.string \"hi$\"",
	"\"h\" // c1\n\t\t# c2\n\t\t// c3\n\t\t\"i\"": "S_Text_X:\n\t.string \"h\"\n\t.string \"i$\"",
	`ascii"h0"`: "S_Text_X:\n\t.ascii \"h0\\0\"",
}

var c10Names = []string{"foo", "é_cmd", "iff", "endx", "msgbox", "END", "Return", "RETURN", "End", "Goto", "CALL"} // incl. case variants of the names the compiler itself treats specially

// c10Valid: balanced parentheses (depth <= 2 inside the list), no empty
// argument, inline data only as a whole argument.
// every command name of the alphabet is an AutoVar command (that only matters where a command stands in a condition)
var c10Cmd = func() parser.CommandConfig {
	c := parser.CommandConfig{AutoVarCommands: map[string]parser.AutoVarCommand{}}
	for _, n := range c10Names {
		c.AutoVarCommands[n] = parser.AutoVarCommand{VarName: "VAR_RESULT"}
	}
	return c
}()

const c10Contexts = 14

func c10Valid(seq []argTok) bool {
	texts := map[string]bool{}
	for _, t := range seq {
		if t.kind == 4 && t.out == "S_Text_0" {
			texts[t.src] = true
		}
	}
	if len(texts) > 1 {
		return false // two different texts in one command: their numbering is C06's business
	}
	depth := 0
	argLen := 0
	argHasDatum := false
	for _, t := range seq {
		switch t.kind {
		case 1:
			depth++
			if depth > 2 {
				return false
			}
			argLen++
		case 2:
			depth--
			if depth < 0 {
				return false
			}
			argLen++
		case 3:
			if argLen == 0 || (argHasDatum && argLen != 1) {
				return false
			}
			argLen, argHasDatum = 0, false
		case 4:
			argHasDatum = true
			argLen++
		default:
			argLen++
		}
	}
	if depth != 0 {
		return false
	}
	if len(seq) > 0 && (argLen == 0 || (argHasDatum && argLen != 1)) {
		return false
	}
	return true
}

func c10Render(name string, seq []argTok) (src, out string) {
	var ss, so strings.Builder
	ss.WriteString(name)
	so.WriteString(name)
	if len(seq) > 0 {
		ss.WriteString("(")
		for i, t := range seq {
			if i > 0 {
				ss.WriteString(" ")
			}
			ss.WriteString(t.src)
			if t.kind != 3 {
				so.WriteString(" ")
			}
			so.WriteString(t.out)
		}
		ss.WriteString(")")
	}
	return ss.String(), so.String()
}

// stretchOf returns the n lines starting at the first occurrence of first.
func stretchOf(lines []string, first string, n int) []string {
	for i, l := range lines {
		if l == first {
			if i+n > len(lines) {
				return lines[i:]
			}
			return lines[i : i+n]
		}
	}
	return nil
}

// nonBlank drops empty lines (blank separators between blocks are layout).
func nonBlank(ls []string) []string {
	out := ls[:0:0]
	for _, l := range ls {
		if l != "" {
			out = append(out, l)
		}
	}
	return out
}

func runC10(tier string) int {
	r := harness.NewRun("C10", "exploration", tier, budget(tier, 50*time.Second, 12*time.Minute))
	maxLen := 5
	if tier == "thorough" {
		maxLen = 6
	}
	nA := uint64(len(c10Alphabet))
	completed := -1
	for L := 0; L <= maxLen && !r.Expired(); L++ {
		total := uint64(1)
		for i := 0; i < L; i++ {
			total *= nA
		}
		done := r.Parallel(total, func(w int, idx uint64) {
			seq := make([]argTok, L)
			x := idx
			hasText, hasMoves, hasParen, nargs := false, false, false, 1
			textBlock := "S_Text_X:\n\t.string \"hi$\"" // X = the label number expected in the context
			for i := range seq {
				seq[i] = c10Alphabet[x%nA]
				x /= nA
				switch {
				case seq[i].kind == 4 && seq[i].out == "S_Text_0":
					hasText = true
					textBlock = c10TextBlocks[seq[i].src]
				case seq[i].kind == 4:
					hasMoves = true
				case seq[i].kind == 1:
					hasParen = true
				case seq[i].kind == 3:
					nargs++
				}
			}
			if !c10Valid(seq) {
				return
			}
			// context variants: rotate by index so that every sequence sees one of each family over the run;
			// all contexts for short sequences.
			ctxs := []int{int(idx % c10Contexts)}
			if L <= 2 {
				ctxs = ctxs[:0]
				for c := 0; c < c10Contexts; c++ {
					ctxs = append(ctxs, c)
				}
			}
			// every command name for the shortest argument lists, one (rotating) name beyond
			nameIdx := []int{0}
			if L <= 1 {
				nameIdx = nameIdx[:0]
				for n := range c10Names {
					nameIdx = append(nameIdx, n)
				}
			}
			for _, ctx := range ctxs {
				for _, ni := range nameIdx {
					name := c10Names[(int(idx)+ctx+ni)%len(c10Names)]
					csrc, cout := c10Render(name, seq)
					var src string
					var want []string
					switch ctx {
					case 0: // alone
						src = "script S {\n\t" + csrc + "\n}\n"
						want = []string{"S::", "\t" + cout, "\treturn"}
					case 1: // middle of a stretch
						src = "script S {\n\tpre\n\t" + csrc + "\n\tpost(x, y)\n}\n"
						want = []string{"S::", "\tpre", "\t" + cout, "\tpost x, y", "\treturn"}
					case 2: // twice in a row, then end
						src = "script S {\n\t" + csrc + "\n\t" + csrc + "\n\tend\n}\n"
						want = []string{"S::", "\t" + cout, "\t" + cout, "\tend"}
					case 3: // all on one line
						src = "script S { pre " + csrc + " post }\n"
						want = []string{"S::", "\tpre", "\t" + cout, "\tpost", "\treturn"}
					case 5: // inside the '_' case of a poryswitch that is selected because nothing matches
						src = "script S {\n\tporyswitch(PV) {\n\t\tNOPE: other\n\t\t_ {\n\t\t\tpre\n\t\t\t" + csrc + "\n\t\t\tpost\n\t\t}\n\t}\n}\n"
						want = []string{"\tpre", "\t" + cout, "\tpost"}
					case 6: // inside a directly selected colon case, after another command
						src = "script S {\n\tpre\n\tporyswitch(PV) {\n\t\tSEL: " + csrc + "\n\t\t_: other\n\t}\n\tpost\n}\n"
						want = []string{"\tpre", "\t" + cout, "\tpost"}
					case 7: // last command of an if body that other statements follow
						src = "script S {\n\tif (flag(F)) {\n\t\tpre\n\t\t" + csrc + "\n\t}\n\tpost\n}\n"
						want = []string{"\tpre", "\t" + cout}
					case 8: // last command of a loop body
						src = "script S {\n\twhile (flag(F)) {\n\t\tpre\n\t\t" + csrc + "\n\t}\n}\n"
						want = []string{"\tpre", "\t" + cout}
					case 9: // last command of a switch case
						src = "script S {\n\tswitch (var(V)) {\n\t\tcase 1:\n\t\t\tpre\n\t\t\t" + csrc + "\n\t\tcase 2:\n\t\t\tpost\n\t}\n}\n"
						want = []string{"\tpre", "\t" + cout}
					case 11: // the command is an AutoVar command standing in the middle of a condition (it is rendered like a statement, before its comparison)
						src = "script S {\n\tif (flag(A) && " + csrc + " && flag(B) || flag(C)) {\n\t\tx\n\t}\n}\n"
						want = []string{"\t" + cout, "\tcompare VAR_RESULT, 0"}
					case 13: // the command is an AutoVar command and the operand of a switch that is THE statement of a colon-form poryswitch case
						src = "script S {\n\tpre\n\tporyswitch(PV) {\n\t\tSEL: switch (" + csrc + ") {\n\t\t\tcase 1:\n\t\t\t\tx\n\t\t}\n\t\t_: other\n\t}\n\tpost\n}\n"
						want = []string{"\tpre", "\t" + cout, "\tswitch VAR_RESULT"}
					case 12: // inside the inline script of a table entry of the FIRST of two tables of a mapscripts statement
						src = "mapscripts M {\n\tT1 [\n\t\tVAR_A, 1 {\n\t\t\tpre\n\t\t\t" + csrc + "\n\t\t\tpost\n\t\t}\n\t]\n\tT2 [\n\t\tVAR_B, 2 {\n\t\t\tother\n\t\t}\n\t]\n}\n"
						cout = strings.ReplaceAll(strings.ReplaceAll(cout, "S_Movement_0", "M_T1_0_Movement_0"), "S_Text_0", "M_T1_0_Text_0")
						want = []string{"\tpre", "\t" + cout, "\tpost"}
					case 10: // after a command whose moves() is one step spelled like this command's two steps joined, and whose text is spelled like this command's text with its type
						src = "script S {\n\tpre(moves(ud), braille\"hi\")\n\t" + csrc + "\n}\n"
						cout = strings.ReplaceAll(strings.ReplaceAll(cout, "S_Movement_0", "S_Movement_1"), "S_Text_0", "S_Text_1")
						want = []string{"\tpre S_Movement_0, S_Text_0", "\t" + cout}
					default: // inside an if body (optimize: body chunk follows)
						src = "script S {\n\tif (flag(F)) {\n\t\tpre\n\t\t" + csrc + "\n\t\tpost\n\t}\n}\n"
						want = []string{"\tpre", "\t" + cout, "\tpost"}
					}
					src = "const K = 5\nconst K2 = 1 + 2\n" + src
					res := comp.Compile(src, comp.Opts{Optimize: true, Switches: c10Switches(), Cmd: c10Cmd})
					r.Add("evaluations", 1)
					if nargs >= 2 && hasParen {
						r.Add("nontrivial", 1)
					}
					if res.Panic != "" || res.Err != nil {
						r.Report(harness.Violation{Sig: "C10:rejected:" + firstWords(fmt.Sprint(res.Err), 5), Summary: fmt.Sprintf("command rejected: %v %s\n  source: %q", res.Err, firstLine(res.Panic), src), Replay: map[string]interface{}{"source": src}})
						continue
					}
					// The script block is everything before the hoisted data.
					got := nonBlank(strings.Split(res.Out, "\n"))
					if ctx >= 4 {
						// inside an if body only the straight-line stretch is compared (chunk labels and jumps are C01's business)
						got = stretchOf(got, want[0], len(want))
					}
					wantAll := append([]string{}, want...)
					if hasMoves && ctx < 4 {
						wantAll = append(wantAll, "", "S_Movement_0:", "\tu", "\td", "\tstep_end")
					}
					if hasText && ctx < 4 {
						wantAll = append(wantAll, "")
						wantAll = append(wantAll, strings.Split(strings.Replace(textBlock, "_X", "_0", 1), "\n")...)
					}
					if ctx == 10 {
						for _, blk := range []string{"S_Movement_0:\n\tud\n\tstep_end", "S_Text_0:\n\t.braille \"hi$\""} {
							if !strings.Contains(res.Out, blk) {
								wantAll = append(wantAll, "<missing: "+blk+">")
							}
						}
						if blk := strings.Replace(textBlock, "_X", "_1", 1); hasText && !strings.Contains(res.Out, blk) {
							wantAll = append(wantAll, "<missing: "+blk+">")
						}
						if hasMoves && !strings.Contains(res.Out, "S_Movement_1:\n\tu\n\td\n\tstep_end") {
							wantAll = append(wantAll, "<missing: S_Movement_1 with u d step_end>")
						}
					} else if ctx == 12 {
						if blk := strings.Replace(strings.Replace(textBlock, "_X", "_0", 1), "S_Text", "M_T1_0_Text", 1); hasText && !strings.Contains(res.Out, blk) {
							wantAll = append(wantAll, "<missing: "+blk+">")
						}
						if hasMoves && !strings.Contains(res.Out, "M_T1_0_Movement_0:\n\tu\n\td\n\tstep_end") {
							wantAll = append(wantAll, "<missing: M_T1_0_Movement_0 with u d step_end>")
						}
						// commands are never duplicated: the stretch occurs once in the file
						if n := strings.Count(res.Out, "\tpre\n"); n != 1 {
							wantAll = append(wantAll, fmt.Sprintf("<the command 'pre' occurs %d times in the output>", n))
						}
					} else if ctx >= 4 {
						if blk := strings.Replace(textBlock, "_X", "_0", 1); hasText && !strings.Contains(res.Out, blk) {
							wantAll = append(wantAll, "<missing: "+blk+">")
						}
						if hasMoves && !strings.Contains(res.Out, "S_Movement_0:\n\tu\n\td\n\tstep_end") {
							wantAll = append(wantAll, "<missing: S_Movement_0 with u d step_end>")
						}
					}
					wantAll = nonBlank(wantAll)
					if strings.Join(got, "\n") != strings.Join(wantAll, "\n") {
						s2 := src
						r.Report(harness.Violation{
							Sig:     fmt.Sprintf("C10:ctx%d:differs", ctx),
							Summary: fmt.Sprintf("command %q ctx=%d:\n  emitted %q\n  want    %q", csrc, ctx, res.Out, strings.Join(wantAll, "\n")),
							Replay:  map[string]interface{}{"source": src, "want": strings.Join(wantAll, "\n"), "output": res.Out},
							Recheck: func() bool {
								return comp.Compile(s2, comp.Opts{Optimize: true, Switches: c10Switches(), Cmd: c10Cmd}).Out == res.Out
							},
						})
					} else if r.WantSample() && nargs >= 3 && hasParen {
						r.Sample(map[string]interface{}{"command": csrc, "emitted_line": cout, "context": ctx})
					}
				}
			}
		})
		if done {
			completed = L
		}
	}
	if completed < maxLen {
		r.NotExhaustive(fmt.Sprintf("completed argument token sequences of length <= %d of planned <= %d", completed, maxLen))
	}
	// the size dimension: commands with K arguments and straight-line stretches of K commands, for every K up to a bound
	maxK := 80
	if tier == "thorough" {
		maxK = 400
	}
	argKinds := []argTok{{"a", "a", 0}, {"5", "5", 0}, {"K", "5", 0}, {"0x1F", "0x1F", 0}, {"é1", "é1", 0}, {"-1", "-1", 0}, {"K2", "1 + 2", 0}}
	longDone := r.Parallel(uint64(maxK)*2, func(w int, idx uint64) {
		k := int(idx/2) + 1
		var src string
		var want []string
		if idx%2 == 0 {
			var seq []argTok
			for i := 0; i < k; i++ {
				if i > 0 {
					seq = append(seq, argTok{",", ",", 3})
				}
				seq = append(seq, argKinds[(i+k)%len(argKinds)])
				if i%5 == 4 {
					seq = append(seq, argTok{"+", "+", 0}, argTok{"(", "(", 1}, argKinds[i%len(argKinds)], argTok{")", ")", 2})
				}
			}
			csrc, cout := c10Render("longcmd", seq)
			src = "const K = 5\nconst K2 = 1 + 2\nscript S {\n\tpre\n\t" + csrc + "\n\tpost\n}\n"
			want = []string{"S::", "\tpre", "\t" + cout, "\tpost", "\treturn"}
		} else {
			var sb strings.Builder
			sb.WriteString("const K = 5\nconst K2 = 1 + 2\nscript S {\n")
			want = []string{"S::"}
			for i := 0; i < k; i++ {
				a := argKinds[i%len(argKinds)]
				fmt.Fprintf(&sb, "\tc%d(%s, %d)\n", i, a.src, i)
				want = append(want, fmt.Sprintf("\tc%d %s, %d", i, a.out, i))
			}
			sb.WriteString("}\n")
			src = sb.String()
			want = append(want, "\treturn")
		}
		res := comp.Compile(src, comp.Opts{Optimize: true})
		r.Add("evaluations", 1)
		r.Add("nontrivial", 1)
		r.Add("long_commands_and_stretches", 1)
		got := nonBlank(strings.Split(res.Out, "\n"))
		if res.Err != nil || res.Panic != "" || strings.Join(got, "\n") != strings.Join(want, "\n") {
			r.Report(harness.Violation{Sig: fmt.Sprintf("C10:long:%d", idx%2), Summary: fmt.Sprintf("size %d: error %v; emitted %q\n  want %q", k, res.Err, clip(res.Out, 400), clip(strings.Join(want, "\n"), 400)), Replay: map[string]interface{}{"source": src, "want": strings.Join(want, "\n"), "output": res.Out}})
		}
	})
	if !longDone {
		r.NotExhaustive("long commands not completed")
	}
	// dictionary sweep: every identifier-like literal of the compiler's own source (and case / prefix variants) as a
	// command name, as an argument and as both, alone, in the middle of a stretch and as the last command of an if body
	words := dictIdents()
	sweepDone := r.Parallel(uint64(len(words))*3*3, func(w int, idx uint64) {
		word := words[idx/9]
		role, ctx := int(idx/3%3), int(idx%3)
		name, args, outArgs := "foo", "("+word+", 5)", " "+word+", 5"
		switch role {
		case 1:
			name, args, outArgs = word, "", ""
		case 2:
			name, args, outArgs = word, "(a, "+word+")", " a, "+word
		}
		if role >= 1 && (word == "end" || word == "return") {
			return // the two documented terminator commands
		}
		csrc, cout := name+args, name+outArgs
		var src string
		var want []string
		switch ctx {
		case 0:
			src, want = "script S {\n\t"+csrc+"\n}\n", []string{"S::", "\t" + cout}
		case 1:
			src, want = "script S {\n\tpre\n\t"+csrc+"\n\tpost(x)\n}\n", []string{"S::", "\tpre", "\t" + cout, "\tpost x"}
		default:
			src, want = "script S {\n\tif (flag(F)) {\n\t\tpre\n\t\t"+csrc+"\n\t}\n\tpost\n}\n", []string{"\tpre", "\t" + cout}
		}
		res := comp.Compile(src, comp.Opts{Optimize: true})
		r.Add("evaluations", 1)
		r.Add("dictionary_sweep", 1)
		got := nonBlank(strings.Split(res.Out, "\n"))
		if ctx == 2 {
			got = stretchOf(got, "\tpre", len(want))
		} else if len(got) > len(want) {
			got = got[:len(want)] // how the script ends after the command is C01's business
		}
		if res.Err != nil || res.Panic != "" || strings.Join(got, "\n") != strings.Join(want, "\n") {
			r.Report(harness.Violation{Sig: fmt.Sprintf("C10:dictionary:role%d", role), Summary: fmt.Sprintf("command %q (context %d): error %v; emitted %q, want %q", csrc, ctx, res.Err, clip(res.Out, 300), strings.Join(want, "\n")), Replay: map[string]interface{}{"source": src, "want": strings.Join(want, "\n"), "output": res.Out}})
		}
	})
	if !sweepDone {
		r.NotExhaustive("dictionary sweep not completed")
	}
	r.Set("dictionary_words", len(words))
	r.Set("long_max_arguments_and_commands", maxK)
	r.Set("max_tokens_completed", completed)
	r.Set("alphabet", len(c10Alphabet))
	r.Assume("expected line = name, then the source tokens joined by single spaces with no space before a comma; constants replaced by their value; an inline text / moves() that is a whole argument replaced by its label",
		"no empty arguments, inline data only as whole arguments, parentheses balanced to depth 2 (the property's domain)")
	// two commands whose inline texts are different strings with equal 64-bit digests: each command line carries the label of its own text
	hashCollisionFiles(r, "C10")
	return r.Finish(r.Get("evaluations"), r.Get("nontrivial"),
		"every argument token sequence of length <= L over a 26-token alphabet (a two-part text with a run of comment lines between the parts, an ascii text ending in 0, identifiers incl. multi-byte, keywords, decimal/negative/hex numbers, operators, an illegal character, parentheses, comma, two constants, inline text, moves()) that is in the domain, with 11 command names incl. case variants of end / return / goto / call (all names for <= 1 token, rotating beyond), in 14 contexts (as the operand of a switch that is the statement of a colon-form poryswitch case, in the inline script of the first of two tables of a mapscripts statement, as an AutoVar command in the middle of a condition, after a command whose inline data are spelled like this command's data joined / typed, alone, middle of a stretch, twice in a row, all on one line, inside an if body, inside a poryswitch case selected through _ / directly, last command of an if body / loop body / switch case); plus every identifier-like literal of the compiler's own source as command name and as argument in 3 contexts; plus prepared pairs of inline texts with equal digests under common 64-bit hashes; plus commands with K arguments and stretches of K commands for every K up to the bound in the coverage; the whole emitted file is compared byte for byte with the generator's expectation; non-trivial = >= 2 arguments and nested parentheses")
}

// c10Switches: the compile switches of every C10 compilation. Besides PV (which selects the poryswitch cases of the
// contexts) there are switches named like command names, arguments and constants of the programs: a switch is only
// consulted by poryswitch.
func c10Switches() map[string]string {
	return map[string]string{"PV": "SEL", "a": "SW_a", "pre": "SW_pre", "foo": "SW_foo", "K": "SW_K", "u": "SW_u", "hi": "SW_hi", "x": "SW_x"}
}
