package checks

import (
	"fmt"
	"strings"
	"time"

	"github.com/huderlem/poryscript/parser"

	"pmc/internal/comp"
	"pmc/internal/harness"
	"pmc/internal/machine"
	"pmc/internal/model"
)

// C11 — an AutoVar condition runs its command once, in order, then compares
// its var. Lockstep product exploration of C02's expression enumeration with
// 1-2 leaves replaced by AutoVar leaves, plus AutoVar switch operands.

func init() { register(&Check{ID: "C11", Run: runC11}) }

var autoCfg = parser.CommandConfig{AutoVarCommands: map[string]parser.AutoVarCommand{
	"avfix":  {VarName: "VAR_RESULT"},
	"avnone": {VarName: "VAR_RES2"},
	"avp0":   {VarNameArgPosition: comp.IntPtr(0)},
	"avp1":   {VarNameArgPosition: comp.IntPtr(1)},
	"avtxt":  {VarName: "VAR_RESULT"},
	"avk":    {VarName: "VAR_K"},
}}

const numAutoKinds = 7
const numAutoForms = 9

// autoLeaf builds an AutoVar leaf of the given command kind and comparison form on leaf index i.
func autoLeaf(kind, form, i int) *model.Leaf {
	var call, out, v string
	switch kind {
	case 0:
		call, out, v = fmt.Sprintf("avfix(%d)", i), fmt.Sprintf("avfix %d", i), "VAR_RESULT"
	case 1:
		call, out, v = "avnone", "avnone", "VAR_RES2"
	case 2:
		call, out, v = fmt.Sprintf("avp0(VAR_P%d, %d)", i, i), fmt.Sprintf("avp0 VAR_P%d, %d", i, i), fmt.Sprintf("VAR_P%d", i)
	case 3:
		call, out, v = fmt.Sprintf("avp1(%d, VAR_Q%d, X)", i, i), fmt.Sprintf("avp1 %d, VAR_Q%d, X", i, i), fmt.Sprintf("VAR_Q%d", i)
	case 4:
		call, out, v = `avtxt("hi")`, "avtxt S_Text_0", "VAR_RESULT"
	case 5:
		call, out, v = fmt.Sprintf("avk(KONST, %d)", i), fmt.Sprintf("avk 7 + 1, %d", i), "VAR_K"
	default: // arguments with operator characters, incl. the printf verb character
		call, out, v = fmt.Sprintf("avfix(N %% %d, 100 %%, %% s)", i), fmt.Sprintf("avfix N %% %d, 100 %%, %% s", i), "VAR_RESULT"
	}
	lf := &model.Leaf{Kind: machine.KVar, Name: v, AutoSrc: call, AutoOut: out}
	c := 2 + i%3
	rels := []machine.Rel{machine.RelEQ, machine.RelNE, machine.RelLT, machine.RelLE, machine.RelGT, machine.RelGE}
	syms := []string{"==", "!=", "<", "<=", ">", ">="}
	switch form {
	case 0:
		lf.Src, lf.Rel, lf.Const = call, machine.RelNE, 0
	case 1:
		lf.Src, lf.Rel, lf.Const = "!"+call, machine.RelEQ, 0
	case 8:
		lf.Src, lf.Rel, lf.Const, lf.Strict = fmt.Sprintf("%s >= value(%d)", call, c), machine.RelGE, c, true
	default:
		lf.Src, lf.Rel, lf.Const = fmt.Sprintf("%s %s %d", call, syms[form-2], c), rels[form-2], c
	}
	return lf
}

func runC11(tier string) int {
	r := harness.NewRun("C11", "model_checking", tier, budget(tier, 45*time.Second, 12*time.Minute))
	copts := &comp.Opts{Cmd: autoCfg}
	maxK, maxDeco := 4, 1
	if tier == "thorough" {
		maxK, maxDeco = 4, 2 // (5 leaves with 13 positions and three line-marker settings does not fit the budget)
	}
	type job struct {
		k        int
		tree     *model.Cond
		autos    []int // leaf indices that are AutoVar leaves
		kindOf   int
		formOf   int
		sameKind bool // both AutoVar leaves call the same command (with different arguments)
		sameCall bool // ... with the very same arguments and the same comparison: the command still runs once per leaf
	}
	var jobs []job
	for k := 1; k <= maxK; k++ {
		for _, t := range model.CondShapes(k) {
			for a := 0; a < k; a++ {
				for b := a; b < k; b++ {
					autos := []int{a}
					if b != a {
						autos = []int{a, b}
					}
					for kind := 0; kind < numAutoKinds; kind++ {
						for form := 0; form < numAutoForms; form++ {
							if k >= 3 && (kind*7+form*3+a+b)%4 != 0 {
								continue // rotation for larger trees
							}
							jobs = append(jobs, job{k, t, autos, kind, form, false, false})
							if len(autos) == 2 && kind != 4 {
								jobs = append(jobs, job{k, t, autos, kind, form, true, false})
								if k <= 3 {
									jobs = append(jobs, job{k, t, autos, kind, form, true, true})
								}
							}
						}
					}
				}
			}
		}
	}
	r.Set("jobs", len(jobs))
	done := r.Parallel(uint64(len(jobs)), func(w int, ji uint64) {
		j := jobs[ji]
		m := model.CountNodes(j.tree)
		model.ForEachDeco(m, maxDeco, func(deco []uint8) {
			cond := model.Decorate(j.tree, deco, func(i int) *model.Leaf {
				for n, a := range j.autos {
					if a == i {
						kind := (j.kindOf + n*2) % numAutoKinds
						if j.sameKind {
							kind = j.kindOf
						}
						if n == 1 && kind == 4 {
							kind = 0 // at most one inline text per program
						}
						if j.sameCall {
							return autoLeaf(kind, (j.formOf+n*4)%numAutoForms, 1) // same argument index: the two calls are spelled alike
						}
						return autoLeaf(kind, (j.formOf+n*4)%numAutoForms, i+1)
					}
				}
				return model.LeafForm((i*7+j.formOf)%model.NumLeafForms, i+1)
			})
			for pos := 0; pos <= 17; pos++ {
				if pos >= 14 && j.k > 2 {
					continue // the jump-like bodies matter where the whole condition can be folded into one command: short conditions
				}
				sc := condProgram(cond, pos)
				c11Eval(r, sc, copts, fmt.Sprintf("k=%d pos=%d expr=%q", j.k, pos, model.CondString(cond)), j.k >= 2)
			}
		})
	})
	// AutoVar switch operands.
	swDone := r.Parallel(uint64(numAutoKinds*7), func(w int, idx uint64) {
		kind, ctx := int(idx)/7, int(idx)%7
		lf := autoLeaf(kind, 0, 1)
		lf.Src = lf.AutoSrc
		sw := model.Stmt{Kind: model.SSwitch, Operand: lf, Cases: []model.Case{
			{Val: 1, Body: []model.Stmt{mcmd("a")}}, {Val: 2}, {Val: 3, Body: []model.Stmt{mcmd("b"), {Kind: model.SBreak}, mcmd("dead")}}, {Default: true, Body: []model.Stmt{mcmd("d")}}}}
		var body []model.Stmt
		switch ctx {
		case 0:
			body = []model.Stmt{sw}
		case 1:
			body = []model.Stmt{mcmd("p"), sw, mcmd("z")}
		case 2:
			body = []model.Stmt{{Kind: model.SWhile, Cond: mflag("LC"), Body: []model.Stmt{sw, mcmd("z")}}, mcmd("zz")}
		case 4, 5, 6:
			// a case body of the AutoVar switch holds another switch: on a var (4), on another AutoVar command (5), or the AutoVar
			// switch sits in a case of a var switch (6)
			inner := model.Stmt{Kind: model.SSwitch, Operand: mvar("N1"), Cases: []model.Case{{Val: 5, Body: []model.Stmt{mcmd("i1")}}}}
			if ctx == 5 {
				lf2 := autoLeaf((kind+2)%numAutoKinds, 0, 2)
				if lf2.AutoSrc == `avtxt("hi")` && kind == 4 {
					lf2 = autoLeaf(0, 0, 2)
				}
				lf2.Src = lf2.AutoSrc
				inner.Operand = lf2
			}
			if ctx == 6 {
				outer := model.Stmt{Kind: model.SSwitch, Operand: mvar("N1"), Cases: []model.Case{{Val: 5, Body: []model.Stmt{sw, mcmd("i1")}}, {Default: true, Body: []model.Stmt{mcmd("i2")}}}}
				body = []model.Stmt{mcmd("p"), outer, mcmd("z")}
			} else {
				sw.Cases[0].Body = []model.Stmt{inner, mcmd("a")}
				body = []model.Stmt{mcmd("p"), sw, mcmd("z")}
			}
		default:
			// the same command was already used in a condition with other arguments
			prev := autoLeaf(kind, 2, 7)
			body = []model.Stmt{{Kind: model.SIf, Arms: []model.Arm{{Cond: &model.Cond{Kind: model.CLeaf, Leaf: prev}, Body: []model.Stmt{sw}}}, HasElse: true, Else: []model.Stmt{mcmd("e")}}, mcmd("z")}
		}
		c11Eval(r, &model.Script{Name: "S", Body: body}, copts, fmt.Sprintf("switch operand kind=%d ctx=%d", kind, ctx), true)
	})
	// (round 13) AutoVar switches none of whose cases has a body: nothing is compared, but the command is still a command of
	// the script and runs once where the switch stands (lazy mode: only commands are observable)
	emptyDone := r.Parallel(uint64(numAutoKinds*4*3), func(w int, idx uint64) {
		kind, variant, ctx := int(idx)/12, int(idx)/3%4, int(idx)%3
		lf := autoLeaf(kind, 0, 1)
		lf.Src = lf.AutoSrc
		sw := model.Stmt{Kind: model.SSwitch, Operand: lf}
		switch variant {
		case 0:
			sw.Cases = []model.Case{{Val: 1}, {Val: 2}}
		case 1:
			sw.Cases = []model.Case{{Default: true}}
		case 2:
			sw.Cases = []model.Case{{Val: 1}, {Default: true}, {Val: 2}}
		default:
			sw.Cases = []model.Case{{Val: 4}}
		}
		var body []model.Stmt
		switch ctx {
		case 0:
			body = []model.Stmt{mcmd("p"), sw, mcmd("z")}
		case 1:
			body = []model.Stmt{sw}
		default:
			body = []model.Stmt{{Kind: model.SWhile, Cond: mflag("LC"), Body: []model.Stmt{sw, mcmd("z")}}, mcmd("zz")}
		}
		c11Eval(r, &model.Script{Name: "S", Body: body}, copts, fmt.Sprintf("commandless-body switch operand kind=%d cases=%d ctx=%d", kind, variant, ctx), true)
	})
	swDone = swDone && emptyDone
	// AutoVar statements inside poryswitch cases (colon and brace form, selected directly and through '_').
	pswDone := r.Parallel(uint64(numAutoKinds*4*4), func(w int, idx uint64) {
		kind, stmtKind, form := int(idx)/16, int(idx)/4%4, int(idx)%4
		lf := autoLeaf(kind, 0, 1)
		cond := &model.Cond{Kind: model.CLeaf, Leaf: autoLeaf(kind, 3, 1)}
		var st model.Stmt
		switch stmtKind {
		case 0:
			lf.Src = lf.AutoSrc
			st = model.Stmt{Kind: model.SSwitch, Operand: lf, Cases: []model.Case{{Val: 1, Body: []model.Stmt{mcmd("a")}}, {Val: 2}, {Default: true, Body: []model.Stmt{mcmd("d")}}}}
		case 1:
			st = model.Stmt{Kind: model.SIf, Arms: []model.Arm{{Cond: cond, Body: []model.Stmt{mcmd("t")}}}, HasElse: true, Else: []model.Stmt{mcmd("f")}}
		case 2:
			st = model.Stmt{Kind: model.SWhile, Cond: cond, Body: []model.Stmt{mcmd("t")}}
		default:
			st = model.Stmt{Kind: model.SDoWhile, Cond: cond, Body: []model.Stmt{mcmd("t")}}
		}
		inner := strings.TrimSpace(model.PrintBody([]model.Stmt{st}, 3))
		var psw string
		switch form {
		case 0:
			psw = "\tporyswitch(PV) {\n\t\tSEL: " + inner + "\n\t\t_: other\n\t}\n"
		case 1:
			psw = "\tporyswitch(PV) {\n\t\tSEL {\n\t\t\t" + inner + "\n\t\t}\n\t\t_ { other }\n\t}\n"
		case 2:
			psw = "\tporyswitch(PV) {\n\t\tNOPE: other\n\t\t_: " + inner + "\n\t}\n"
		default:
			psw = "\tporyswitch(PV) {\n\t\tNOPE { other }\n\t\t_ {\n\t\t\t" + inner + "\n\t\t}\n\t}\n"
		}
		sc := &model.Script{Name: "S", Body: []model.Stmt{mcmd("p"), st, mcmd("z")}}
		src := "script S {\n\tp\n" + psw + "\tz\n}\n"
		o := *copts
		o.Switches = map[string]string{"PV": "SEL"}
		c11EvalSrc(r, sc, src, &o, fmt.Sprintf("AutoVar statement kind=%d stmt=%d inside poryswitch form=%d", kind, stmtKind, form), true)
	})
	// Loops whose body holds no command of its own: only a break, only a continue, nothing, or a guarded break. Nothing but
	// the AutoVar command of the condition is observable there (lazy mode), and it must run each time the condition is evaluated.
	const nLoopBodies = 7
	lbDone := r.Parallel(uint64(numAutoKinds*numAutoForms*2*nLoopBodies*2), func(w int, idx uint64) {
		kind := int(idx) % numAutoKinds
		rest := int(idx) / numAutoKinds
		form := rest % numAutoForms
		rest /= numAutoForms
		loopKind, bodyKind, compound := rest%2, rest/2%nLoopBodies, rest/2/nLoopBodies
		cond := &model.Cond{Kind: model.CLeaf, Leaf: autoLeaf(kind, form, 1)}
		if compound == 1 {
			cond = &model.Cond{Kind: model.CAnd, L: mflag("G2"), R: cond}
		}
		var body []model.Stmt
		text := ""
		switch bodyKind {
		case 0:
			body = []model.Stmt{{Kind: model.SBreak}}
		case 1:
			body = []model.Stmt{{Kind: model.SContinue}}
		case 2:
			body = nil
		case 3:
			body = []model.Stmt{{Kind: model.SIf, Arms: []model.Arm{{Cond: mflag("G1"), Body: []model.Stmt{{Kind: model.SBreak}}}}}}
		case 5: // statements after a break that a label makes reachable: they run on into the next evaluation of the condition
			body = []model.Stmt{mcmd("first"), {Kind: model.SGotoIf, Name: "Again", Flag: "J1", WantSet: true}, {Kind: model.SBreak}, {Kind: model.SLabel, Name: "Again"}, mcmd("second")}
		case 6: // ... the same inside an if, with the rest of the loop body behind it
			body = []model.Stmt{mcmd("first"), {Kind: model.SGotoIf, Name: "Again", Flag: "J1", WantSet: true}, {Kind: model.SIf, Arms: []model.Arm{{Cond: mflag("G1"), Body: []model.Stmt{{Kind: model.SBreak}, {Kind: model.SLabel, Name: "Again"}, mcmd("second")}}}}, mcmd("third")}
		default:
			// the break is what a poryswitch leaves behind
			body = []model.Stmt{{Kind: model.SBreak}}
			text = "poryswitch(PV) {\n\t\t\tNOPE { other }\n\t\t\t_ { break }\n\t\t}"
		}
		st := model.Stmt{Kind: model.SWhile, Cond: cond, Body: body}
		if loopKind == 1 {
			st.Kind = model.SDoWhile
		}
		sc := &model.Script{Name: "S", Body: []model.Stmt{mcmd("p"), st, mcmd("z")}}
		src := model.Print([]*model.Script{sc})
		if text != "" {
			if !strings.Contains(src, "\t\tbreak\n") {
				panic("C11: loop body rendering changed")
			}
			src = strings.Replace(src, "\t\tbreak\n", "\t\t"+text+"\n", 1)
		}
		o := *copts
		o.Switches = map[string]string{"PV": "SEL"}
		c11EvalSrc(r, sc, src, &o, fmt.Sprintf("AutoVar loop condition kind=%d form=%d loop=%d commandless-body=%d compound=%d", kind, form, loopKind, bodyKind, compound), true)
	})
	if !done || !swDone || !pswDone || !lbDone {
		r.NotExhaustive("job list not completed")
	}
	r.Set("max_leaves", maxK)
	r.Set("autovar_command_kinds", numAutoKinds)
	r.Set("traces_validated_against_impl", r.Get("transitions"))
	r.Assume("command config: fixed var_name, var_name_arg_position 0 and 1, a command without argument list, a constant argument, an inline text argument",
		"the preamble is an observable command whose text is the statement rendering 'name arg, arg' (C10 checks that rendering rule separately)")
	return r.Finish(r.Get("evaluations"), r.Get("nontrivial"),
		"C02's expression trees with 1-2 leaves replaced by AutoVar leaves (also two calls of one command, with different and with the very same arguments; 7 command kinds incl. arguments containing '%' x 9 comparison forms, rotated for k>=3) x decorations x 18 condition positions (four of them - for conditions of <= 2 leaves - an if whose body is a single call / goto / return / end; the 14th - a trailing elif with an empty body - in lazy mode: its AutoVar command must still run) x optimize on/off, plus AutoVar switch operands in 7 contexts (incl. switches nested in its cases and the AutoVar switch nested in another switch), plus AutoVar switches none of whose cases has a body (4 case lists x 3 contexts, lazy mode: the command still runs), plus AutoVar switch / if / while / do...while statements inside poryswitch cases (colon and brace form, selected directly and through '_'), plus while / do...while loops with an AutoVar condition (alone and behind &&) whose body holds no command (break, continue, nothing, a guarded break, a poryswitch that leaves a break) or label-reached statements after a break (lazy mode); the programs with <= 2 leaves, the switch programs and the poryswitch-wrapped ones also compiled with line markers on, without and with an input path; lockstep exploration (the preamble command, each operand read and each body command are observable events); non-trivial = >= 2 leaves or a switch")
}

func c11Eval(r *harness.Run, sc *model.Script, copts *comp.Opts, desc string, nontrivial bool) {
	c11EvalSrc(r, sc, model.Print([]*model.Script{sc}), copts, desc, nontrivial)
}

// c11EvalSrc: the model script sc is the meaning of the (possibly hand-wrapped) source text.
func c11EvalSrc(r *harness.Run, sc *model.Script, text string, copts *comp.Opts, desc string, nontrivial bool) {
	scripts := []*model.Script{sc}
	src := "const KONST = 7 + 1\nconst VAR_RES2 = VAR_OTHER\nconst VAR_K = VAR_OTHER2\n" + text
	for _, opt := range []bool{true, false} {
		// position 13 (a trailing elif with an empty body): nothing depends on the operands there, so only the commands are
		// observable (lazy mode); everywhere else every operand read is an event (lockstep)
		mode := machine.Lockstep
		if strings.Contains(desc, " pos=13 ") || strings.Contains(desc, "commandless-body") {
			mode = machine.Lazy
		}
		ok, rej, st, v, out := checkScripts(scripts, src, opt, mode, copts)
		if !ok {
			r.Add("rejected_wellformed", 1)
			r.Report(harness.Violation{Sig: "C11:rejected:" + firstWords(rej, 6), Summary: fmt.Sprintf("well-formed AutoVar condition rejected: %s\n  source: %q", rej, src), Replay: map[string]interface{}{"source": src, "error": rej}})
			continue
		}
		r.Add("evaluations", 1)
		addStats(r, st)
		if nontrivial {
			r.Add("nontrivial", 1)
		}
		if v != nil {
			scc := sc
			r.Report(harness.Violation{
				Sig:     violationSig("C11", v),
				Summary: fmt.Sprintf("%s optimize=%v: %s\n  source: %q", desc, opt, v, src),
				Replay:  map[string]interface{}{"desc": desc, "source": src, "optimize": opt, "reference_next_event": v.A.String(), "emitted_next_event": v.B.String(), "observable_prefix": v.Trace, "emitted_assembly": out},
				Recheck: func() bool {
					_, _, _, v2, _ := checkScripts([]*model.Script{scc}, src, opt, mode, copts)
					return v2 != nil
				},
			})
		} else if r.WantSample() && nontrivial {
			r.Sample(map[string]interface{}{"desc": desc, "optimize": opt, "product_states": st.States, "product_transitions": st.Transitions})
		}
		// the same program under the other line-marker settings (markers on without an input path - the CLI default when
		// reading standard input - and markers on with a path): explored again whenever the marker-free text differs
		if v == nil && (strings.HasPrefix(desc, "k=1 ") || strings.HasPrefix(desc, "k=2 ") || !strings.HasPrefix(desc, "k=")) {
			for _, lm := range []comp.Opts{{LineMarkers: true}, {LineMarkers: true, Path: "f.pory"}} {
				o := *copts
				o.Optimize, o.LineMarkers, o.Path = opt, lm.LineMarkers, lm.Path
				res := comp.Compile(src, o)
				if res.Err == nil && res.Panic == "" && dropMarkerLines(res.Out) == out {
					r.Add("line_marker_settings_identical", 1)
					continue
				}
				r.Add("line_marker_settings_explored", 1)
				ok2, rej2, _, v2, out2 := checkScripts(scripts, src, opt, mode, &o)
				if !ok2 {
					r.Report(harness.Violation{Sig: "C11:rejected-with-markers:" + firstWords(rej2, 6), Summary: fmt.Sprintf("rejected with line markers (path %q): %s\n  source: %q", lm.Path, rej2, src), Replay: map[string]interface{}{"source": src, "error": rej2, "line_markers": true, "path": lm.Path}})
				} else if v2 != nil {
					r.Report(harness.Violation{Sig: violationSig("C11", v2) + "+linemarkers", Summary: fmt.Sprintf("%s optimize=%v line markers on, path %q: %s\n  source: %q", desc, opt, lm.Path, v2, src),
						Replay: map[string]interface{}{"desc": desc, "source": src, "optimize": opt, "line_markers": true, "path": lm.Path, "reference_next_event": v2.A.String(), "emitted_next_event": v2.B.String(), "observable_prefix": v2.Trace, "emitted_assembly": out2}})
				}
			}
		}
	}
}
