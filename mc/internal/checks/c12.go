package checks

import (
	"fmt"
	"strings"
	"time"

	"pmc/internal/comp"
	"pmc/internal/harness"
	"pmc/internal/model"
)

// C12 — poryswitch contributes exactly the selected case and nothing else.
// Metamorphic: output(P, s) == output(P with every poryswitch replaced by the
// content of the case s selects); generator-side selection.

func init() { register(&Check{ID: "C12", Run: runC12}) }

type pcontent struct {
	src       string // %d = case index
	sel       string // what the content becomes once nested poryswitches are resolved (W=1)
	braceOnly bool
}

type pposition struct {
	name     string
	wrap     func(inner string) string
	contents []pcontent
	indent   string
}

func c12Positions() []pposition {
	stmtContents := []pcontent{
		{"c%d", "c%d", false},
		{"msgbox(\"t%d\")", "msgbox(\"t%d\")", false},
		{"if (flag(F%d)) {\nc%d\n}", "if (flag(F%d)) {\nc%d\n}", false},
		{"L%d:", "L%d:", false},
		{"c%d\nmsgbox(\"u%d\", ascii\"t%d\")\nd%d", "c%d\nmsgbox(\"u%d\", ascii\"t%d\")\nd%d", true},
		{"", "", true},
		{"poryswitch(W) {\n1: n%d\n_: msgbox(\"never%d\")\n}", "n%d", false},
		{"a%d\nporyswitch(W) {\n2 { msgbox(\"never%d\") }\n_ { msgbox(\"t%d\") k%d }\n}", "a%d\nmsgbox(\"t%d\")\nk%d", true},
		{"switch (var(V%d)) {\ncase 1:\nc%d\n}", "switch (var(V%d)) {\ncase 1:\nc%d\n}", false},
		// the same literal in several cases, formatted under parameters that give different results
		{"msgbox(format(\"aaa bbb ccc ddd eee\", \"TEST\", 70))", "msgbox(format(\"aaa bbb ccc ddd eee\", \"TEST\", 70))", false},
		{"msgbox(format(\"aaa bbb ccc ddd eee\", \"TEST\", 70, cursorOverlapWidth=10))", "msgbox(format(\"aaa bbb ccc ddd eee\", \"TEST\", 70, cursorOverlapWidth=10))", false},
	}
	textContents := []pcontent{
		{"\"x%d\"", "\"x%d\"", false},
		{"ascii\"y%d\"", "ascii\"y%d\"", false},
		{"format(\"z%d z z z z z z z z z z z z z\", \"TEST\", 40)", "format(\"z%d z z z z z z z z z z z z z\", \"TEST\", 40)", false},
		{"custom\"a%d\"\n\"b\"", "custom\"a%d\"\n\"b\"", false},
		{"\"x%d$\"", "\"x%d$\"", false},
		{"\"w%d w w w w w w w w\\pw w w w w w\"", "\"w%d w w w w w w w w\\pw w w w w w\"", false}, // a plain literal that format() would change
		{"format(\"aaa bbb ccc ddd eee\", \"TEST\", 70)", "format(\"aaa bbb ccc ddd eee\", \"TEST\", 70)", false},
		{"format(\"aaa bbb ccc ddd eee\", \"TEST\", 70, cursorOverlapWidth=10)", "format(\"aaa bbb ccc ddd eee\", \"TEST\", 70, cursorOverlapWidth=10)", false},
		{"format(\"aaa bbb ccc ddd eee\", \"TEST\", 70, numLines=1)", "format(\"aaa bbb ccc ddd eee\", \"TEST\", 70, numLines=1)", false},
	}
	moveContents := []pcontent{
		{"s%d", "s%d", false},
		{"s%d * 2", "s%d * 2", false},
		{"s%d, t%d", "s%d, t%d", true},
		{"", "", true},
		{"step_end", "step_end", false},
		{"poryswitch(W) {\n1: n%d * 3\n_ { m%d m%d }\n}", "n%d * 3", false},
		{"x%d poryswitch(W) {\n2: n%d\n_ { m%d q%d }\n} y%d", "x%d m%d q%d y%d", true},
	}
	martContents := []pcontent{
		{"P%d", "P%d", false},
		{"P%d\nQ%d", "P%d\nQ%d", true},
		{"", "", true},
		{"ITEM_NONE", "ITEM_NONE", false},
		{"poryswitch(W) {\n1: N%d\n_ { M%d M%d }\n}", "N%d", false},
		{"X%d poryswitch(W) {\n2: N%d\n_ { M%d CI }\n}", "X%d M%d CI", true},
	}
	return []pposition{
		{"statement", func(in string) string { return "script S {\npre(\"t0\")\n" + in + "\npost(\"t1\", \"t9\")\n}\n" }, stmtContents, ""},
		{"statement-in-if", func(in string) string {
			return "script S {\nif (flag(G)) {\n" + in + "\n} else {\ne\n}\nmsgbox(\"t1\")\n}\n"
		}, stmtContents, ""},
		{"statement-in-loop", func(in string) string {
			return "script S {\nwhile (flag(G)) {\npre\n" + in + "\n}\nmsgbox(\"t1\")\n}\nscript S2 {\nmsgbox(\"t2\")\n}\n"
		}, append(append([]pcontent{}, stmtContents...), pcontent{"break", "break", false}, pcontent{"if (flag(H%d)) {\nbreak\n}\nz%d", "if (flag(H%d)) {\nbreak\n}\nz%d", true}, pcontent{"c%d\ncontinue", "c%d\ncontinue", true}), ""},
		// the poryswitch is the last statement of a switch case that another case follows, inside a loop: a selected case ending in
		// 'continue' makes the written-out program ill-formed there, and then the poryswitch program must be rejected too
		{"statement-in-switch-case-in-loop", func(in string) string {
			return "script S {\nwhile (flag(G)) {\npre\nswitch (var(Q)) {\ncase 1:\n" + in + "\ncase 2:\nz\ndefault:\ny\n}\n}\nmsgbox(\"t1\")\n}\n"
		}, []pcontent{stmtContents[0], stmtContents[1], stmtContents[5], {"continue", "continue", false}, {"c%d\ncontinue", "c%d\ncontinue", true}, {"break", "break", false}}, ""},
		{"statement-in-mapscript", func(in string) string {
			return "mapscripts Map {\nON_LOAD {\n" + in + "\n}\nON_FRAME [\nVAR_A, 1 {\nmsgbox(\"t1\")\n}\n]\n}\n"
		}, stmtContents, ""},
		{"text", func(in string) string { return "script S {\nmsgbox(\"x1\")\n}\ntext T {\n" + in + "\n}\n" }, textContents, ""},
		{"movement", func(in string) string { return "movement M {\nu " + in + " d\n}\n" }, moveContents, ""},
		{"moves", func(in string) string {
			return "script S {\napplymovement(1, moves(u " + in + " d))\napplymovement(2, moves(s1))\n}\n"
		}, moveContents, ""},
		{"mart", func(in string) string { return "const CI = ITEM_X\nmart Mt {\nI0 " + in + " I9\n}\n" }, martContents, ""},
	}
}

var c12Labels = []string{"A", "B", "1", "_"}

func fill(s string, i int) string {
	return strings.ReplaceAll(s, "%d", fmt.Sprint(i))
}

func runC12(tier string) int {
	r := harness.NewRun("C12", "exploration", tier, budget(tier, 50*time.Second, 12*time.Minute))
	positions := c12Positions()
	// ordered lists of distinct case labels, length 1..3
	var lists [][]string
	var gen func(cur []string)
	gen = func(cur []string) {
		if len(cur) > 0 {
			lists = append(lists, append([]string{}, cur...))
		}
		if len(cur) == 3 {
			return
		}
		for _, l := range c12Labels {
			dup := false
			for _, c := range cur {
				dup = dup || c == l
			}
			if !dup {
				gen(append(cur, l))
			}
		}
	}
	gen(nil)
	vals := []string{"A", "B", "1", "Z", "", "A ", " B"} // "" = the switch is given with an empty value (-s V=): it matches no label; neither does a value with a space around a label's spelling (values are compared as given)
	type job struct {
		pos  int
		list int
	}
	var jobs []job
	for p := range positions {
		for l := range lists {
			jobs = append(jobs, job{p, l})
		}
	}
	// flatten (job, content combination) into one index space so that a case is one small program family
	offsets := make([]uint64, len(jobs)+1)
	for ji, j := range jobs {
		nc := uint64(len(positions[j.pos].contents))
		combos := uint64(1)
		for i := 0; i < len(lists[j.list]); i++ {
			combos *= nc * 2
		}
		offsets[ji+1] = offsets[ji] + combos
	}
	done := r.Parallel(offsets[len(jobs)], func(w int, flat uint64) {
		lo, hi := 0, len(jobs)
		for lo+1 < hi {
			mid := (lo + hi) / 2
			if offsets[mid] <= flat {
				lo = mid
			} else {
				hi = mid
			}
		}
		j := jobs[lo]
		pos := positions[j.pos]
		labels := lists[j.list]
		k := len(labels)
		nc := len(pos.contents)
		for c := int(flat - offsets[lo]); c >= 0; c = -1 {
			x := c
			cases := make([]string, k)
			sels := make([]string, k)
			valid := true
			for i := 0; i < k; i++ {
				ct := pos.contents[x%nc]
				x /= nc
				brace := x%2 == 1
				x /= 2
				if ct.braceOnly && !brace {
					valid = false
					break
				}
				body := fill(ct.src, i)
				if brace {
					cases[i] = labels[i] + " {\n" + body + "\n}"
				} else {
					cases[i] = labels[i] + ": " + body
				}
				sels[i] = fill(ct.sel, i)
			}
			if !valid {
				continue
			}
			inner := "poryswitch(V) {\n" + strings.Join(cases, "\n") + "\n}"
			// constants that happen to be named like case labels or switch values (they must not take part in the selection)
			constPrefix := "const A = 1\nconst B = A\nconst Z = A\n"
			src := constPrefix + pos.wrap(inner)
			for _, v := range vals {
				sw := map[string]string{"V": v, "W": "1"}
				selIdx, defIdx := -1, -1
				for i, l := range labels {
					if l == v {
						selIdx = i
					}
					if l == "_" {
						defIdx = i
					}
				}
				if selIdx < 0 {
					selIdx = defIdx
				}
				o := comp.Opts{Optimize: true, Switches: sw}
				res := comp.Compile(src, o)
				r.Add("evaluations", 1)
				if k >= 2 {
					r.Add("nontrivial", 1)
				}
				fail := func(sig, what string, extra map[string]interface{}) {
					rp := map[string]interface{}{"position": pos.name, "source": src, "switches": sw, "problem": what, "output": res.Out, "error": fmt.Sprint(res.Err)}
					for kk, vv := range extra {
						rp[kk] = vv
					}
					r.Report(harness.Violation{Sig: sig, Summary: fmt.Sprintf("position=%s V=%s: %s\n  source: %q", pos.name, v, what, src), Replay: rp,
						Recheck: func() bool {
							r2 := comp.Compile(src, o)
							return r2.Out == res.Out && (r2.Err == nil) == (res.Err == nil)
						}})
				}
				if res.Panic != "" {
					fail("C12:panic", "compiler panic: "+firstLine(res.Panic), nil)
					continue
				}
				if selIdx < 0 {
					if res.Err == nil {
						fail("C12:no-case-accepted:"+pos.name, "no case matches and there is no '_' case, but the program was accepted", nil)
					}
					continue
				}
				selSrc := constPrefix + pos.wrap(sels[selIdx])
				ref := comp.Compile(selSrc, o)
				if ref.Err != nil || ref.Panic != "" {
					r.Add("selected_program_rejected", 1)
					if res.Err == nil {
						fail("C12:selected-rejected-but-accepted:"+pos.name, fmt.Sprintf("the program with the selected content written out is rejected (%v) but the poryswitch program is accepted", ref.Err), map[string]interface{}{"selected_source": selSrc})
					}
					continue
				}
				if res.Err != nil {
					fail("C12:rejected:"+pos.name+":"+firstWords(res.Err.Error(), 5), "program rejected although the selected program compiles: "+res.Err.Error(), map[string]interface{}{"selected_source": selSrc})
					continue
				}
				if res.Out != ref.Out {
					fail("C12:differs:"+pos.name, fmt.Sprintf("output differs from the program with the selected case written out\n  got  %q\n  want %q", res.Out, ref.Out), map[string]interface{}{"selected_source": selSrc, "selected_output": ref.Out})
				} else if r.WantSample() && k == 3 && strings.Contains(src, "poryswitch(W)") {
					r.Sample(map[string]interface{}{"position": pos.name, "source": src, "switches": sw, "selected_source": selSrc})
				}
			}
		}
	})
	// the size dimension: a poryswitch with K cases for every K up to a bound, each position, the first / middle /
	// last case or '_' selected
	maxK := 48
	if tier == "thorough" {
		maxK = 200
	}
	longDone := r.Parallel(uint64(maxK)*uint64(len(positions))*4, func(w int, idx uint64) {
		which := int(idx % 4)
		x := idx / 4
		pos := positions[x%uint64(len(positions))]
		k := int(x/uint64(len(positions))) + 4
		ct := pos.contents[0]
		var cases []string
		for i := 0; i < k; i++ {
			body := fill(ct.src, i)
			if i%2 == 0 {
				cases = append(cases, fmt.Sprintf("L%d: %s", i, body))
			} else {
				cases = append(cases, fmt.Sprintf("L%d {\n%s\n}", i, body))
			}
		}
		cases = append(cases, "_: "+fill(ct.src, k))
		sel := []int{0, k / 2, k - 1, k}[which]
		v := fmt.Sprintf("L%d", sel)
		if sel == k {
			v = "NONE"
		}
		src := pos.wrap("poryswitch(V) {\n" + strings.Join(cases, "\n") + "\n}")
		selSrc := pos.wrap(fill(ct.sel, sel))
		o := comp.Opts{Optimize: true, Switches: map[string]string{"V": v, "W": "1"}}
		res, ref := comp.Compile(src, o), comp.Compile(selSrc, o)
		r.Add("evaluations", 1)
		r.Add("nontrivial", 1)
		r.Add("long_poryswitches", 1)
		if res.Err != nil || ref.Err != nil || res.Panic+ref.Panic != "" || res.Out != ref.Out {
			r.Report(harness.Violation{Sig: "C12:long:" + pos.name, Summary: fmt.Sprintf("position=%s, %d cases, V=%s: error %v / %v; output differs from the program with the selected case written out: %s", pos.name, k, v, res.Err, ref.Err, firstDiff(res.Out, ref.Out)),
				Replay: map[string]interface{}{"position": pos.name, "source": src, "switches": o.Switches, "selected_source": selSrc, "output": res.Out, "selected_output": ref.Out}})
		}
	})
	// lists: K items (steps) before the poryswitch for every K up to a bound, three single-element colon cases and three
	// brace cases of different lengths, each case selected in turn (what one case appends must not reach another)
	maxBefore := 24
	if tier == "thorough" {
		maxBefore = 70
	}
	listDone := r.Parallel(uint64(maxBefore+1)*3*2*4, func(w int, idx uint64) {
		sel := int(idx % 4)
		x := idx / 4
		brace := x%2 == 1
		x /= 2
		kind := int(x % 3) // 0 mart, 1 movement, 2 moves()
		k := int(x / 3)
		var before []string
		for i := 0; i < k; i++ {
			before = append(before, fmt.Sprintf("B%d", i))
		}
		contents := [][]string{{"X1"}, {"Y1"}, {"Z1"}}
		if brace {
			contents = [][]string{{"X1", "X2"}, {"Y1", "Y2", "Y3"}, {"Z1"}}
		}
		labels := []string{"A", "B", "_"}
		var cases []string
		for i, c := range contents {
			if brace {
				cases = append(cases, labels[i]+" { "+strings.Join(c, " ")+" }")
			} else {
				cases = append(cases, labels[i]+": "+c[0])
			}
		}
		v := []string{"A", "B", "Q", ""}[sel]
		chosen := contents[map[string]int{"A": 0, "B": 1}[v]]
		if v != "A" && v != "B" {
			chosen = contents[2]
		}
		wrap := func(list []string) string {
			switch kind {
			case 0:
				return "mart M {\n" + strings.Join(list, "\n") + "\n}\n"
			case 1:
				return "movement M {\n" + strings.Join(list, "\n") + "\n}\n"
			}
			return "script S {\n\tam(1, moves(" + strings.Join(list, " ") + "))\n}\n"
		}
		src := wrap(append(append(append([]string{}, before...), "poryswitch(V) { "+strings.Join(cases, " ")+" }"), "AFTER"))
		selSrc := wrap(append(append(append([]string{}, before...), chosen...), "AFTER"))
		o := comp.Opts{Optimize: true, Switches: map[string]string{"V": v}}
		res, ref := comp.Compile(src, o), comp.Compile(selSrc, o)
		r.Add("evaluations", 1)
		r.Add("nontrivial", 1)
		r.Add("list_prefix_programs", 1)
		if res.Err != nil || ref.Err != nil || res.Panic+ref.Panic != "" || res.Out != ref.Out {
			r.Report(harness.Violation{Sig: fmt.Sprintf("C12:list-prefix:kind%d", kind), Summary: fmt.Sprintf("%d elements before the poryswitch (kind %d, brace=%v), -s V=%q: error %v / %v; %s\n  source: %q", k, kind, brace, v, res.Err, ref.Err, firstDiff(res.Out, ref.Out), clip(src, 400)), Replay: map[string]interface{}{"source": src, "switches": o.Switches, "selected_source": selSrc, "output": res.Out, "selected_output": ref.Out}})
		}
	})
	if !listDone {
		r.NotExhaustive("list prefix programs not completed")
	}
	// dictionary sweep: every identifier-like literal of the compiler's own source as a case label, as the -s value and
	// as the switch key, in every position, colon and brace form
	words := dictIdents()
	// (round 13) numbers as case labels in spellings other than canonical decimal: labels and -s values are compared as written
	words = append(words, "0x10", "16", "007", "7", "010", "00", "0x1f", "31")
	sweepDone := r.Parallel(uint64(len(words))*uint64(len(positions))*4, func(w int, idx uint64) {
		variant := int(idx % 4)
		x := idx / 4
		pos := positions[x%uint64(len(positions))]
		word := words[x/uint64(len(positions))]
		if word == "_" {
			return
		}
		ct := pos.contents[0]
		key := "V"
		if variant >= 2 {
			if word[0] >= '0' && word[0] <= '9' {
				return // a switch key is an identifier: numbers are case labels and -s values only
			}
			key = word
		}
		c0, c1 := word+": "+fill(ct.src, 0), "_: "+fill(ct.src, 1)
		if variant%2 == 1 {
			c0, c1 = word+" {\n"+fill(ct.src, 0)+"\n}", "_ {\n"+fill(ct.src, 1)+"\n}"
		}
		src := pos.wrap("poryswitch(" + key + ") {\n" + c0 + "\n" + c1 + "\n}")
		for sel, v := range []string{word, word + "x"} {
			o := comp.Opts{Optimize: true, Switches: map[string]string{key: v, "W": "1"}}
			res, ref := comp.Compile(src, o), comp.Compile(pos.wrap(fill(ct.sel, sel)), o)
			r.Add("evaluations", 1)
			r.Add("dictionary_sweep", 1)
			if res.Err != nil || ref.Err != nil || res.Panic+ref.Panic != "" || res.Out != ref.Out {
				r.Report(harness.Violation{Sig: "C12:dictionary:" + pos.name, Summary: fmt.Sprintf("position=%s case label %q, -s %s=%s: error %v / %v; %s", pos.name, word, key, v, res.Err, ref.Err, firstDiff(res.Out, ref.Out)), Replay: map[string]interface{}{"position": pos.name, "source": src, "switches": o.Switches, "output": res.Out, "selected_output": ref.Out}})
			}
		}
	})
	if !sweepDone {
		r.NotExhaustive("dictionary sweep not completed")
	}
	r.Set("dictionary_words", len(words))
	// the property lifted over the control-flow program families: every program with (1) its whole body, (2) every
	// block, (3) each single top-level statement (colon form) moved into the selected case of a poryswitch - selected
	// directly or through '_' after an unselected case - must compile to exactly the output of the plain program
	plans, swN := liftPlans(tier)
	forEachEngineProgram(r, plans, swN, func(w int, p engineProgram) {
		src := model.Print([]*model.Script{p.Script})
		o := comp.Opts{Optimize: true, Switches: map[string]string{"PV": "SEL"}}
		ref := comp.Compile(src, o)
		if ref.Err != nil || ref.Panic != "" {
			return
		}
		for vi, v := range c12Wrappings(src) {
			res := comp.Compile(v, o)
			r.Add("evaluations", 1)
			r.Add("family_wrappings", 1)
			r.Add("nontrivial", 1)
			if res.Err != nil || res.Panic != "" || res.Out != ref.Out {
				v2 := v
				r.Report(harness.Violation{Sig: fmt.Sprintf("C12:family:wrapping%d", vi), Summary: fmt.Sprintf("%s: moving statements into the selected poryswitch case (wrapping %d) changes the result (%v %s): %s\n  source: %q", p.Desc, vi, res.Err, firstLine(res.Panic), firstDiff(res.Out, ref.Out), clip(v, 600)),
					Replay:  map[string]interface{}{"source": v, "switches": o.Switches, "selected_source": src, "output": res.Out, "selected_output": ref.Out},
					Recheck: func() bool { r2 := comp.Compile(v2, o); return r2.Err != nil || r2.Out != ref.Out }})
			}
		}
	})
	if !done || !longDone {
		r.NotExhaustive("job list not completed")
	}
	// the number of poryswitch statements in a file: N statements of one kind (text, movement, mart, script, a script with
	// a poryswitch nested in a poryswitch, or all kinds in turn), each with a poryswitch of its own, for every N up to the
	// bound - the file equals the file with every selected case written out
	maxStmts := 160
	if tier == "thorough" {
		maxStmts = 600
	}
	manyDone := r.Parallel(uint64(maxStmts)*6*2, func(w int, idx uint64) {
		n, kind, v := int(idx/12)+1, int(idx/2%6), []string{"A", "Z"}[idx%2]
		var sb, sel strings.Builder
		pick := func(a, other string) string {
			if v == "A" {
				return a
			}
			return other
		}
		for i := 0; i < n; i++ {
			k := kind
			if kind == 5 {
				k = i % 5
			}
			switch k {
			case 0:
				fmt.Fprintf(&sb, "text T%d {\n\tporyswitch(V) {\n\t\tA: \"a %d\"\n\t\t_: \"other %d\"\n\t}\n}\n", i, i, i)
				fmt.Fprintf(&sel, "text T%d {\n\t\"%s %d\"\n}\n", i, pick("a", "other"), i)
			case 1:
				fmt.Fprintf(&sb, "movement M%d {\n\tpre%d\n\tporyswitch(V) {\n\t\tA { a%d * 2 }\n\t\t_ { other%d }\n\t}\n}\n", i, i, i, i)
				fmt.Fprintf(&sel, "movement M%d {\n\tpre%d\n\t%s\n}\n", i, i, pick(fmt.Sprintf("a%d * 2", i), fmt.Sprintf("other%d", i)))
			case 2:
				fmt.Fprintf(&sb, "mart R%d {\n\tporyswitch(V) {\n\t\tA: ITEM_A%d\n\t\t_: ITEM_O%d\n\t}\n\tITEM_LAST%d\n}\n", i, i, i, i)
				fmt.Fprintf(&sel, "mart R%d {\n\t%s\n\tITEM_LAST%d\n}\n", i, pick(fmt.Sprintf("ITEM_A%d", i), fmt.Sprintf("ITEM_O%d", i)), i)
			case 3:
				fmt.Fprintf(&sb, "script S%d {\n\tporyswitch(V) {\n\t\tA: msgbox(\"sa %d\")\n\t\t_: msgbox(\"so %d\")\n\t}\n\tz%d\n}\n", i, i, i, i)
				fmt.Fprintf(&sel, "script S%d {\n\tmsgbox(\"%s %d\")\n\tz%d\n}\n", i, pick("sa", "so"), i, i)
			default:
				fmt.Fprintf(&sb, "script N%d {\n\tporyswitch(V) {\n\t\tA {\n\t\t\tporyswitch(W) {\n\t\t\t\t1: na%d\n\t\t\t\t_: nb%d\n\t\t\t}\n\t\t}\n\t\t_ { no%d }\n\t}\n}\n", i, i, i, i)
				fmt.Fprintf(&sel, "script N%d {\n\t%s\n}\n", i, pick(fmt.Sprintf("na%d", i), fmt.Sprintf("no%d", i)))
			}
		}
		o := comp.Opts{Optimize: true, Switches: map[string]string{"V": v, "W": "1"}}
		res, ref := comp.Compile(sb.String(), o), comp.Compile(sel.String(), o)
		r.Add("evaluations", 1)
		r.Add("nontrivial", 1)
		r.Add("many_poryswitch_files", 1)
		if res.Err != nil || ref.Err != nil || res.Panic != "" || res.Out != ref.Out {
			r.Report(harness.Violation{Sig: fmt.Sprintf("C12:many-statements:kind%d", kind), Summary: fmt.Sprintf("file with %d statements (kind %d) that each hold a poryswitch, -s V=%s: error %v %s / %v; %s", n, kind, v, res.Err, firstLine(res.Panic), ref.Err, firstDiff(res.Out, ref.Out)), Replay: map[string]interface{}{"source": sb.String(), "switches": o.Switches, "selected_source": sel.String(), "output": res.Out, "selected_output": ref.Out}})
		}
	})
	if !manyDone {
		r.NotExhaustive("files with many poryswitch statements not completed")
	}
	r.Set("many_poryswitch_statements_max", maxStmts)
	r.Set("long_max_cases", maxK+3)
	r.Set("positions", len(positions))
	r.Set("case_label_lists", len(lists))
	r.Assume("generator-side selection: the case whose label equals the -s value, else '_'",
		"a poryswitch nested in a non-selected case must itself have a matching case or '_' (the property's last clause is not limited to selected positions)",
		"where the written-out program is ill-formed (a continue that is not last), the poryswitch program must be rejected as well",
		"line markers off; all switch keys defined; the file also defines constants named like case labels and switch values")
	return r.Finish(r.Get("evaluations"), r.Get("nontrivial"),
		"every poryswitch with 1-3 distinct case labels from {A, B, 1, _} in every order x colon/brace form per case x every content assignment (11-13 statement contents incl. one literal formatted under different parameters in different cases, inline texts, typed texts, labels, control flow, nested poryswitches; 8 text contents incl. typed, formatted (also one literal under three parameter sets) and multi-part; 7 movement and 6 mart contents incl. nested poryswitches, multipliers, terminators) in 9 positions (statement, in if, in loop, in a switch case of a loop before further cases, in inline map script, text, movement, moves(), mart) x -s value in {A, B, 1, non-matching, empty}; plus poryswitches with K cases for every K up to the bound in the coverage in every position with the first / middle / last case or '_' selected; also marts, movements and moves() with K elements before the poryswitch for every K up to a bound, each case selected; also every identifier-like literal of the compiler's own source and numbers in non-canonical spellings (0x10, 007, 010, 00, 0x1f next to 16, 7, 31; as case label and -s value, not as key) as case label, -s value and switch key in every position; also every program of the control-flow families (C01 / C03 / C04 bounds) with its whole body, every block, or one top-level statement moved into the selected case (brace and colon form, selected directly and through '_'); output compared byte for byte with the program in which the selected case is written out; non-trivial = >= 2 cases")
}

// c12Wrappings rewrites a printed single-script program (one statement per line, tab indentation) so that
// statements sit inside the selected case of a poryswitch on PV (compiled with PV=SEL).
func c12Wrappings(src string) []string {
	lines := strings.Split(strings.TrimRight(src, "\n"), "\n")
	if len(lines) < 2 {
		return nil
	}
	head, body, tail := lines[0], lines[1:len(lines)-1], lines[len(lines)-1]
	indent := func(ls []string, by string) []string {
		out := make([]string, len(ls))
		for i, l := range ls {
			out[i] = by + l
		}
		return out
	}
	join := func(parts ...[]string) string {
		var all []string
		for _, p := range parts {
			all = append(all, p...)
		}
		return strings.Join(all, "\n") + "\n"
	}
	var out []string
	// 0: whole body in a directly selected brace case
	out = append(out, join([]string{head, "\tporyswitch(PV) {", "\t\tSEL {"}, indent(body, "\t\t"), []string{"\t\t}", "\t\t_ { other }", "\t}", tail}))
	// 1: whole body in '_' after an unselected case that holds commands, a text and a label
	out = append(out, join([]string{head, "\tporyswitch(PV) {", "\t\tNOPE {", "\t\t\tother(\"unselected\")", "\t\t\tUnselectedLabel:", "\t\t\tif (flag(UNSEL)) {", "\t\t\t\tother2", "\t\t\t}", "\t\t}", "\t\t_ {"}, indent(body, "\t\t"), []string{"\t\t}", "\t}", tail}))
	// 1b: whole body in a '_' case that stands FIRST, before two unselected cases with control flow of their own
	out = append(out, join([]string{head, "\tporyswitch(PV) {", "\t\t_ {"}, indent(body, "\t\t"), []string{"\t\t}", "\t\tNOPE { other }", "\t\tNOPE2 {", "\t\t\twhile (flag(UNSEL2)) {", "\t\t\t\tother3", "\t\t\t}", "\t\t}", "\t}", tail}))
	// 2: every block body wrapped
	var wrapped []string
	var stack []string
	for _, l := range lines {
		t := strings.TrimLeft(l, "\t")
		ind := l[:len(l)-len(t)]
		if len(stack) > 0 && stack[len(stack)-1] == ind && strings.HasPrefix(t, "}") {
			wrapped = append(wrapped, ind+"\t\t}", ind+"\t\t_ { other }", ind+"\t}")
			stack = stack[:len(stack)-1]
		}
		extra := strings.Repeat("\t\t", len(stack))
		wrapped = append(wrapped, extra+l)
		if strings.HasSuffix(t, "{") && !strings.HasPrefix(t, "script") && !strings.HasPrefix(t, "switch") {
			wrapped = append(wrapped, extra+ind+"\tporyswitch(PV) {", extra+ind+"\t\tSEL {")
			stack = append(stack, ind)
		}
	}
	if len(stack) == 0 {
		out = append(out, strings.Join(wrapped, "\n")+"\n")
	}
	// 3..: one top-level statement in a colon case (first four statements)
	var starts []int
	for i, l := range body {
		if strings.HasPrefix(l, "\t") && !strings.HasPrefix(l, "\t\t") && !strings.HasPrefix(l, "\t}") {
			starts = append(starts, i)
		}
	}
	for si := 0; si < len(starts) && si < 4; si++ {
		from, to := starts[si], len(body)
		if si+1 < len(starts) {
			to = starts[si+1]
		}
		stmt := indent(body[from:to], "\t")
		stmt[0] = "\t\tSEL: " + strings.TrimLeft(body[from], "\t")
		out = append(out, join([]string{head}, body[:from], []string{"\tporyswitch(PV) {", "\t\tNOPE: other"}, stmt, []string{"\t\t_: other3", "\t}"}, body[to:], []string{tail}))
	}
	return out
}
