package checks

import (
	"fmt"
	"regexp"
	"strings"
	"time"

	"pmc/internal/comp"
	"pmc/internal/harness"
	"pmc/internal/model"
)

// C13 — using a constant is the same as writing its value.
// Metamorphic: output(P) == output(P') byte for byte, WITH line markers, where
// P' has the const lines blanked and the expanded value written at every use.

func init() { register(&Check{ID: "C13", Run: runC13}) }

type constDefs struct {
	lines    []string // const definition lines
	name     string   // the constant used at the sites
	expanded string   // its fully expanded value
	parens   bool     // value contains parentheses
}

var c13Defs = []constDefs{
	{[]string{"const K = 5"}, "K", "5", false},
	{[]string{"const K = A + 1"}, "K", "A + 1", false},
	{[]string{"const K = ( A + 2 )"}, "K", "( A + 2 )", true},
	{[]string{"const J = 7", "const K = J"}, "K", "7", false},
	{[]string{"const J = B * 2", "const K = J + J"}, "K", "B * 2 + B * 2", false},
	{[]string{"const J = 1", "const K = 0x10", "const L = K + J"}, "L", "0x10 + 1", false},
	{[]string{"const K = FLAG_É", "const Unused = K K"}, "K", "FLAG_É", false},
	{[]string{"const J = -1", "const K = J"}, "K", "-1", false},
	{[]string{"const K = ITEM_NONE"}, "K", "ITEM_NONE", false},
	{[]string{"const B = 3", "const K = ( B ) + ( 2 )"}, "K", "( 3 ) + ( 2 )", true},
	{[]string{"const J = step_end", "const K = J"}, "K", "step_end", false},
	// the spelling of the constant's own name: non-ASCII first letter, non-ASCII inside, leading underscore, lower case with digits
	{[]string{"const ÉTAGE = 3"}, "ÉTAGE", "3", false},
	{[]string{"const Éa = 6", "const Ké = Éa + 1"}, "Ké", "6 + 1", false},
	{[]string{"const _k = 4", "const _ = _k"}, "_", "4", false},
	{[]string{"const k9z = 0x2"}, "k9z", "0x2", false},
	// a value that names a constant defined LATER (the value of K is the token J: uses of K are written J everywhere)
	{[]string{"const K = J", "const J = 7"}, "K", "J", false},
	{[]string{"const K = VAR_J", "const L = K", "const VAR_J = VAR_0x8004"}, "L", "VAR_J", false},
}

const c13Template = `script S {
	cmd(@0@, y, (@1@))
	if (flag(@2@)) {
		a
	}
	if (var(@3@) == @4@ && !var(@5@)) {
		b
	}
	if (defeated(@6@) || flag(@7@) == TRUE) {
		c
	}
	while (var(V) >= value(@8@)) {
		d
	}
	switch (var(@9@)) {
		case @10@:
			e
		case 99:
			f
		case @21@ + 1:
			f2
		case 2 + @28@:
			f3
		case 3 * ( 4 + @29@ ):
			f4
	}
	cmd2(@22@ + 1, (@23@))
	cmd3(item=@30@, 5, n = @31@)
	cmd4(@32@ (3), @33@(ROUTE))
	if (avfix(@11@, q) < @12@) {
		g
	}
	while (avp0(@26@, q) != 1) {
		g2
	}
	switch (avp1(w, @27@)) {
		case 3:
			g3
	}
	goto(@13@)
}

mapscripts M {
	ON_FRAME [
		@14@, @15@: S
		VAR_Z, @16@ {
			h(@17@)
		}
		@19@, @20@ {
			h2
		}
		VAR_Q + @24@, 2 * @25@: S
	]
}

mart Mt {
	@18@
	ITEM_Z
}
`

const c13Sites = 34

// sites where a value with parentheses cannot be written out literally
var c13NoParens = map[int]bool{28: true, 29: true, 26: true, 27: true, 24: true, 25: true, 21: true, 19: true, 20: true, 2: true, 3: true, 4: true, 5: true, 6: true, 7: true, 9: true, 10: true, 12: true, 14: true, 15: true, 16: true, 18: true}

func c13Fill(vals map[int]string) string {
	s := c13Template
	for i := 0; i < c13Sites; i++ {
		v, ok := vals[i]
		if !ok {
			v = fmt.Sprintf("X%d", i)
		}
		s = strings.Replace(s, fmt.Sprintf("@%d@", i), v, 1)
	}
	return s
}

// firstDiff shows the first differing line of two texts.
func firstDiff(a, b string) string {
	la, lb := strings.Split(a, "\n"), strings.Split(b, "\n")
	for i := 0; i < len(la) || i < len(lb); i++ {
		x, y := "<end>", "<end>"
		if i < len(la) {
			x = la[i]
		}
		if i < len(lb) {
			y = lb[i]
		}
		if x != y {
			return fmt.Sprintf("line %d: %q vs %q", i+1, clip(x, 120), clip(y, 120))
		}
	}
	return "identical"
}

func identOnly(s string) bool {
	if s == "" || (s[0] >= '0' && s[0] <= '9') || s[0] == '-' {
		return false
	}
	return !strings.ContainsAny(s, " ()+*-")
}

func clip(s string, n int) string {
	if len(s) > n {
		return s[:n] + "..."
	}
	return s
}

func runC13(tier string) int {
	r := harness.NewRun("C13", "exploration", tier, budget(tier, 50*time.Second, 10*time.Minute))
	opts := comp.Opts{Optimize: true, LineMarkers: true, Path: "dir/f.pory", Cmd: autoCfg}
	eval := func(desc, p, pPrime string, nontrivial bool) {
		for _, opt := range []bool{true, false} {
			o := opts
			o.Optimize = opt
			a, b := comp.Compile(p, o), comp.Compile(pPrime, o)
			r.Add("evaluations", 1)
			if nontrivial {
				r.Add("nontrivial", 1)
			}
			fail := func(sig, what string) {
				r.Report(harness.Violation{Sig: sig, Summary: fmt.Sprintf("%s: %s", desc, what), Replay: map[string]interface{}{"desc": desc, "source": p, "substituted_source": pPrime, "optimize": opt, "output": a.Out, "substituted_output": b.Out, "error": fmt.Sprint(a.Err), "substituted_error": fmt.Sprint(b.Err)},
					Recheck: func() bool {
						a2, b2 := comp.Compile(p, o), comp.Compile(pPrime, o)
						return a2.Out == a.Out && b2.Out == b.Out
					}})
			}
			if a.Panic != "" || b.Panic != "" {
				fail("C13:panic", "compiler panic "+firstLine(a.Panic+b.Panic))
				continue
			}
			if b.Err != nil {
				fail("C13:harness-domain", "the substituted program does not compile: "+b.Err.Error())
				continue
			}
			if a.Err != nil {
				fail("C13:rejected:"+firstWords(a.Err.Error(), 5), "program with constants rejected: "+a.Err.Error())
				continue
			}
			if a.Out != b.Out {
				fail("C13:differs:"+desc[:strings.Index(desc+" ", " ")], "outputs differ: "+firstDiff(a.Out, b.Out))
			} else if r.WantSample() && nontrivial {
				r.Sample(map[string]interface{}{"desc": desc, "source_head": strings.Join(strings.SplitN(p, "\n", 6)[:5], "\n")})
			}
		}
	}
	for di, d := range c13Defs {
		opts.Switches = map[string]string{"PV": d.name}
		// compile switches named like the constants of the file (and like plain identifiers of the template): switches and
		// constants are separate name spaces
		for _, l := range d.lines {
			if f := strings.Fields(l); len(f) >= 2 {
				opts.Switches[f[1]] = "SWITCHED_" + f[1]
			}
		}
		opts.Switches["X0"], opts.Switches["VAR_Z"], opts.Switches["ITEM_Z"] = "SWX0", "SWVARZ", "SWITEMZ"
		head := strings.Join(d.lines, "\n") + "\n"
		blank := strings.Repeat("\n", len(d.lines))
		multi := strings.Contains(d.expanded, " ") || len(d.lines) > 1
		// single sites and pairs (thorough: triples)
		var sets [][]int
		for i := 0; i < c13Sites; i++ {
			sets = append(sets, []int{i})
			for j := i + 1; j < c13Sites; j++ {
				sets = append(sets, []int{i, j})
				for k := j + 1; k < c13Sites; k++ {
					sets = append(sets, []int{i, j, k})
					if tier == "thorough" {
						for l := k + 1; l < c13Sites; l++ {
							sets = append(sets, []int{i, j, k, l})
						}
					}
				}
			}
		}
		all := make([]int, c13Sites)
		for i := range all {
			all[i] = i
		}
		sets = append(sets, all)
		for _, set := range sets {
			with, without := map[int]string{}, map[int]string{}
			skip := false
			for _, s := range set {
				if d.parens && c13NoParens[s] {
					skip = true
				}
				if s == 18 && !identOnly(d.expanded) {
					skip = true // a mart item must be an identifier when written out
				}
				with[s], without[s] = d.name, d.expanded
			}
			if skip {
				r.Add("skipped_value_not_writable_at_site", 1)
				continue
			}
			eval(fmt.Sprintf("sites%v defs#%d", set, di), head+c13Fill(with), blank+c13Fill(without), multi)
		}
		// non-positions: the name must stay as written
		nonPositions := []string{
			"script S {\n\t" + d.name + "(x)\n\t" + d.name + "\n}\n",                                          // command name
			"movement Mv {\n\t" + d.name + "\n\t" + d.name + " * 2\n}\n",                                      // movement step
			"script S {\n\t" + d.name + ":\n\tx\n\tapplymovement(1, moves(" + d.name + " u))\n}\n",            // label, moves() step
			"script S {\n\tmsgbox(\"" + d.name + "\")\n}\ntext T {\n\t\"" + d.name + " " + d.name + "\"\n}\n", // text content
			"script " + d.name + " {\n\tx\n}\n",                                                               // script name
			"text " + d.name + " {\n\t\"t\"\n}\nmovement M" + d.name + " {\n\tu\n}\n",                         // text name
			"mapscripts " + d.name + " {\n\t" + d.name + ": " + d.name + "\n}\n",                              // mapscripts name, type, label
			"raw `\n" + d.name + "\n`\n",
			"script S {\n\tporyswitch(PV) {\n\t\t" + d.name + ": x1\n\t\t_: x2\n\t}\n}\nmart Mt {\n\tporyswitch(PV) {\n\t\t" + d.name + " { I1 }\n\t\t_ { I2 }\n\t}\n}\n", // poryswitch case label (compiled with -s PV=<name>)                                                                      // raw
		}
		for ni, np := range nonPositions {
			eval(fmt.Sprintf("nonposition%d defs#%d", ni, di), head+np, blank+np, multi)
		}
		// a use before the definition is not a later use
		before := "script S0 {\n\tcmd(" + d.name + ")\n}\n"
		eval(fmt.Sprintf("use-before-definition defs#%d", di), before+head+c13Fill(map[int]string{0: d.name}), before+blank+c13Fill(map[int]string{0: d.expanded}), multi)
		// ... at any site: an earlier script, mapscripts and mart use the name at EVERY site before the definition (there it
		// is an ordinary identifier); each later use is replaced all the same
		allName := map[int]string{}
		for i := 0; i < c13Sites; i++ {
			allName[i] = d.name
		}
		beforeAll := strings.NewReplacer("script S {", "script S0 {", "mapscripts M {", "mapscripts M0 {", "mart Mt {", "mart Mt0 {").Replace(c13Fill(allName))
		if probe := comp.Compile(beforeAll, opts); probe.Err == nil {
			for i := 0; i < c13Sites; i++ {
				if (d.parens && c13NoParens[i]) || (i == 18 && !identOnly(d.expanded)) {
					continue
				}
				eval(fmt.Sprintf("use-before-and-after-definition site%d defs#%d", i, di), beforeAll+head+c13Fill(map[int]string{i: d.name}), beforeAll+blank+c13Fill(map[int]string{i: d.expanded}), multi)
			}
		} else {
			r.Note("use-before-definition prefix rejected for defs#%d: %v", di, probe.Err)
		}
		// redefinition is rejected on its line
		for k := range d.lines {
			redefName := strings.Fields(d.lines[k])[1]
			src := head + "const " + redefName + " = 3\n" + c13Fill(nil)
			res := comp.Compile(src, opts)
			r.Add("evaluations", 1)
			r.Add("redefinitions", 1)
			wantLine := len(d.lines) + 1
			pe, isPE := res.ParseErr()
			if res.Err == nil || !isPE || pe.LineNumberStart != wantLine {
				r.Report(harness.Violation{Sig: "C13:redefinition", Summary: fmt.Sprintf("redefining %s on line %d: got error %v", redefName, wantLine, res.Err), Replay: map[string]interface{}{"source": src}})
			}
		}
	}
	// dictionary sweep: every identifier-like literal of the compiler's own source as the NAME of a constant and as
	// the VALUE of a constant, at every single use site and at all sites at once
	words := dictIdents()
	templateIdents := map[string]bool{}
	for _, id := range regexp.MustCompile(`[A-Za-z_][A-Za-z0-9_]*`).FindAllString(c13Template, -1) {
		templateIdents[id] = true
	}
	sweepDone := r.Parallel(uint64(len(words))*2, func(w int, idx uint64) {
		word := words[idx/2]
		d := constDefs{[]string{"const " + word + " = 5"}, word, "5", false}
		if idx%2 == 1 {
			if word == "K" {
				return
			}
			d = constDefs{[]string{"const K = " + word}, "K", word, false}
		}
		if templateIdents[d.name] {
			return // the template itself uses this identifier: a constant of that name would (rightly) rewrite it
		}
		head, blank := d.lines[0]+"\n", "\n"
		for site := -1; site < c13Sites; site++ {
			with, without := map[int]string{}, map[int]string{}
			for s := 0; s < c13Sites; s++ {
				if s == 18 && !identOnly(d.expanded) {
					continue // a mart item must be an identifier when written out
				}
				if site == -1 || s == site {
					with[s], without[s] = d.name, d.expanded
				}
			}
			if len(with) == 0 {
				continue
			}
			r.Add("dictionary_sweep", 1)
			eval(fmt.Sprintf("dictionary[%s] site=%d", strings.Join(d.lines, ";"), site), head+c13Fill(with), blank+c13Fill(without), false)
		}
	})
	if !sweepDone {
		r.NotExhaustive("dictionary sweep not completed")
	}
	r.Set("dictionary_words", len(words))
	// the size dimension: chains of K constants (each defined from the previous one) and K independent constants,
	// for every K up to a bound; used as command arguments, comparison values and case values
	maxK := 60
	if tier == "thorough" {
		maxK = 300
	}
	longDone := r.Parallel(uint64(maxK)*2, func(w int, idx uint64) {
		k := int(idx/2) + 2
		var head, with, without strings.Builder
		with.WriteString("script S {\n")
		without.WriteString("script S {\n")
		if idx%2 == 0 {
			// chain: C0 = 7, Ci = C(i-1) + i
			exp := "7"
			head.WriteString("const C0 = 7\n")
			for i := 1; i < k; i++ {
				fmt.Fprintf(&head, "const C%d = C%d + %d\n", i, i-1, i)
				exp += fmt.Sprintf(" + %d", i)
			}
			fmt.Fprintf(&with, "\tcmd(C%d, x)\n\tif (var(V) == C%d) {\n\t\ta\n\t}\n\tswitch (var(W)) {\n\t\tcase C%d:\n\t\t\tb\n\t}\n", k-1, k-1, k-1)
			fmt.Fprintf(&without, "\tcmd(%s, x)\n\tif (var(V) == %s) {\n\t\ta\n\t}\n\tswitch (var(W)) {\n\t\tcase %s:\n\t\t\tb\n\t}\n", exp, exp, exp)
		} else {
			for i := 0; i < k; i++ {
				fmt.Fprintf(&head, "const N%d = VAL_%d\n", i, i)
				fmt.Fprintf(&with, "\tcmd%d(N%d, N%d)\n", i, i, (i*7+3)%k)
				fmt.Fprintf(&without, "\tcmd%d(VAL_%d, VAL_%d)\n", i, i, (i*7+3)%k)
			}
		}
		with.WriteString("}\n")
		without.WriteString("}\n")
		r.Add("long_definition_lists", 1)
		eval(fmt.Sprintf("long%d size=%d", idx%2, k), head.String()+with.String(), strings.Repeat("\n", k)+without.String(), true)
	})
	// constant trees: a base of T tokens, two constants that extend it, and constants composed from the first extension that are
	// defined before and after the second one (each definition is expanded on its own), for every T up to a bound
	maxT := 24
	if tier == "thorough" {
		maxT = 80
	}
	treeDone := r.Parallel(uint64(maxT)*3, func(w int, idx uint64) {
		t := int(idx/3) + 1
		variant := int(idx % 3)
		base := "B0"
		for i := 1; i < t; i++ {
			if i%2 == 1 {
				base += " +"
			} else {
				base += fmt.Sprintf(" B%d", i/2)
			}
		}
		if t%2 == 0 {
			base += " 9"
		}
		first, second := base+" + 1", base+" + 2"
		defs := []string{"const BASE = " + base, "const FIRST = BASE + 1"}
		alias, aliasVal := "const ALIAS = FIRST", first
		if variant == 1 {
			alias, aliasVal = "const ALIAS = FIRST + 10", first+" + 10"
		}
		if variant == 2 {
			defs = append(defs, alias, "const SECOND = BASE + 2")
		} else {
			defs = append(defs, "const SECOND = BASE + 2", alias)
		}
		defs = append(defs, "const THIRD = BASE + 3 + 4", "const LAST = ALIAS")
		use := func(a, b, c, d, e string) string {
			return "script S {\n\tcmd(" + a + ", " + b + ")\n\tcmd2(" + c + ", " + d + ", " + e + ")\n\tif (var(V) == " + a + ") {\n\t\tx\n\t}\n}\n"
		}
		r.Add("constant_trees", 1)
		eval(fmt.Sprintf("tree base-tokens=%d variant=%d", t, variant), strings.Join(defs, "\n")+"\n"+use("ALIAS", "SECOND", "FIRST", "BASE", "LAST"), strings.Repeat("\n", len(defs))+use(aliasVal, second, first, base, aliasVal), true)
	})
	if !longDone || !treeDone {
		r.NotExhaustive("long definition lists not completed")
	}
	r.Set("long_max_constants", maxK)
	// the property lifted over the control-flow program families: every flag / var / trainer operand, comparison
	// value and case value of every program replaced by a constant defined in the file header
	plans, swN := liftPlans(tier)
	forEachEngineProgram(r, plans, swN, func(w int, p engineProgram) {
		src := model.Print([]*model.Script{p.Script})
		ref := comp.Compile(src, comp.Opts{Optimize: true})
		if ref.Err != nil || ref.Panic != "" {
			return
		}
		withConsts := c13Constify(src)
		res := comp.Compile(withConsts, comp.Opts{Optimize: true})
		r.Add("evaluations", 1)
		r.Add("family_programs_with_constants", 1)
		if withConsts != src {
			r.Add("nontrivial", 1)
		}
		if res.Err != nil || res.Panic != "" || res.Out != ref.Out {
			r.Report(harness.Violation{Sig: "C13:family", Summary: fmt.Sprintf("%s: writing operands and values as constants changes the result (%v %s): %s\n  source: %q", p.Desc, res.Err, firstLine(res.Panic), firstDiff(res.Out, ref.Out), clip(withConsts, 600)),
				Replay: map[string]interface{}{"source": withConsts, "substituted_source": src, "output": res.Out, "substituted_output": ref.Out},
				Recheck: func() bool {
					r2 := comp.Compile(withConsts, comp.Opts{Optimize: true})
					return r2.Err != nil || r2.Out != ref.Out
				}})
		}
	})
	r.Assume("values with parentheses are only used at sites where nested parentheses can be written out literally (command arguments, value(...))",
		"const lines are replaced by blank lines so that line markers stay comparable")
	return r.Finish(r.Get("evaluations"), r.Get("nontrivial"),
		"17 definition sets (a value naming a constant that is defined later; single token, multi-token, parenthesised, const from const two levels deep, hex, negative, multi-byte value; constant names with a non-ASCII first letter, a non-ASCII letter inside, a leading underscore, lower case with digits) x every single use site, every pair and triple (thorough: quadruple) and all 34 documented use sites (incl. the var argument of AutoVar commands with var_name_arg_position 0 and 1, command arguments written name=CONST and constants directly followed by a parenthesis) (five of them inside a larger expression) at once (command argument incl. nested, flag/var/defeated operands, comparison values incl. value(), switch operand and case value, AutoVar argument and comparison, goto target, map-script table var/value and inline body, mart item) + 9 non-positions (command name, movement step, label, moves() step, text content, script/text/mapscripts names, raw, poryswitch case label selected by -s) + use before definition (one site, and every site at once followed by the definition and a use at each site) + redefinition + every identifier-like literal of the compiler's own source as a constant's name and as its value at every site + constant trees (a base of T tokens for every T up to a bound, two extensions, constants composed from the first extension defined before / after the second) + chains of K constants and K independent constants for every K up to the bound in the coverage; outputs compared byte for byte with line markers on, optimize on/off; also every program of the control-flow families (C01 / C03 / C04 bounds) with every operand, comparison value and case value written as a constant; non-trivial = multi-token or chained definition")
}

var (
	c13OperandRe = regexp.MustCompile(`\b(flag|var|defeated)\((\w+)\)`)
	c13CaseRe    = regexp.MustCompile(`\bcase (\d+):`)
	c13CmpRe     = regexp.MustCompile(`(==|!=|<=|>=|<|>) (\d+)\b`)
)

// c13Constify replaces operand names, comparison values and case values by constants and prepends their definitions.
func c13Constify(src string) string {
	defs := map[string]string{}
	var order []string
	def := func(name, val string) string {
		if _, ok := defs[name]; !ok {
			defs[name] = val
			order = append(order, name)
		}
		return name
	}
	out := c13OperandRe.ReplaceAllStringFunc(src, func(m string) string {
		sm := c13OperandRe.FindStringSubmatch(m)
		return sm[1] + "(" + def("K_"+sm[2], sm[2]) + ")"
	})
	out = c13CaseRe.ReplaceAllStringFunc(out, func(m string) string {
		sm := c13CaseRe.FindStringSubmatch(m)
		return "case " + def("N_"+sm[1], sm[1]) + ":"
	})
	out = c13CmpRe.ReplaceAllStringFunc(out, func(m string) string {
		sm := c13CmpRe.FindStringSubmatch(m)
		return sm[1] + " " + def("N_"+sm[2], sm[2])
	})
	if len(order) == 0 {
		return src
	}
	var head strings.Builder
	for _, n := range order {
		head.WriteString("const " + n + " = " + defs[n] + "\n")
	}
	return head.String() + out
}
