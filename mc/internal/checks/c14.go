package checks

import (
	"fmt"
	"strings"
	"time"

	"pmc/internal/comp"
	"pmc/internal/harness"
)

// C14 — movement and mart lists are expanded, ordered and terminated exactly once.

func init() { register(&Check{ID: "C14", Run: runC14}) }

// constants named like the poryswitch case labels and switch values used below (a case label is not a constant position)
// (the file also holds, before the list under test, movement and mart statements NAMED like steps and items of that list: a name of a statement is not a macro)
const c14Consts = "const X = 11\nconst Y = 12\nconst Z = X\nmovement a {\n\tza1\n\tza2 * 2\n}\nmovement q {\n\tzq1\n}\nmart I1 {\n\tZI1\n}\n"

type mvElem struct {
	src   string   // source spelling (with V=X selected for poryswitch elements)
	steps []string // expected expansion (nil if invalid)
	bad   bool     // must be rejected
	heavy bool     // expands to thousands of lines
	brace bool     // contains a brace-form poryswitch case
}

func c14Elems() []mvElem {
	var out []mvElem
	mults := []struct {
		lit string
		n   int // -1 invalid
	}{{"", 1}, {"1", 1}, {"2", 2}, {"3", 3}, {"9999", 9999}, {"0", -1}, {"10000", -1}, {"-1", -1}, {"0x2", 2}, {"0x270F", 9999}, {"0x2710", -1}, {"18446744073709551617", -1}}
	for _, st := range []string{"a", "b", "step_end"} {
		for _, m := range mults {
			e := mvElem{src: st}
			if m.lit != "" {
				e.src = st + " * " + m.lit
			}
			if m.n < 0 {
				e.bad = true
			} else {
				for i := 0; i < m.n; i++ {
					e.steps = append(e.steps, st)
				}
				e.heavy = m.n > 100
			}
			out = append(out, e)
		}
	}
	// poryswitch-selected segments (V=X)
	out = append(out,
		mvElem{src: "poryswitch(V) { X: p * 2 _: q }", steps: []string{"p", "p"}},
		mvElem{src: "poryswitch(V) { Y: p _: q * 2 }", steps: []string{"q", "q"}},
		mvElem{src: "poryswitch(V) { _: q X: step_end }", steps: []string{"step_end"}},
		mvElem{src: "poryswitch(V) { Y: step_end X: p * 2 }", steps: []string{"p", "p"}},
		mvElem{src: "poryswitch(V) { Y: poryswitch(W) { 1: step_end } _ { q * 3 } }", steps: []string{"q", "q", "q"}, brace: true},
		mvElem{src: "poryswitch(V) { Y { p p } X { q, r * 2 s } }", steps: []string{"q", "r", "r", "s"}, brace: true},
		mvElem{src: "poryswitch(V) { X { } _ { q } }", steps: []string{}, brace: true},
		mvElem{src: "poryswitch(V) { X { t poryswitch(W) { 1: u _: w } } _: q }", steps: []string{"t", "u"}, brace: true},
		mvElem{src: "poryswitch(V) { X: poryswitch(W) { 1: u * 2 _: w } Y: q _: r }", steps: []string{"u", "u"}},
	)
	return out
}

func expectMovementBlock(label string, elems []mvElem) []string {
	lines := []string{label + ":"}
	for _, e := range elems {
		for _, s := range e.steps {
			lines = append(lines, "\t"+s)
			if s == "step_end" {
				return lines
			}
		}
	}
	return append(lines, "\tstep_end")
}

// blockAfter returns the lines from the label line up to the next blank line.
func blockAfter(out, label string) ([]string, bool) {
	lines := strings.Split(out, "\n")
	for i, l := range lines {
		if l == label+":" || l == label+"::" {
			j := i
			for j < len(lines) && lines[j] != "" {
				j++
			}
			return lines[i:j], true
		}
	}
	return nil, false
}

func runC14(tier string) int {
	r := harness.NewRun("C14", "exploration", tier, budget(tier, 50*time.Second, 12*time.Minute))
	elems := c14Elems()
	maxLen := 3
	if tier == "thorough" {
		maxLen = 4
	}
	sw := map[string]string{"V": "X", "W": "1"}
	nE := uint64(len(elems))
	completed := -1
	for L := 0; L <= maxLen && !r.Expired(); L++ {
		total := uint64(1)
		for i := 0; i < L; i++ {
			total *= nE
		}
		done := r.Parallel(total, func(w int, idx uint64) {
			seq := make([]mvElem, L)
			x := idx
			heavy, bad, multiplied := 0, false, false
			for i := range seq {
				seq[i] = elems[x%nE]
				x /= nE
				if seq[i].heavy {
					heavy++
				}
				bad = bad || seq[i].bad
				multiplied = multiplied || len(seq[i].steps) > 1
			}
			if heavy > 1 || (heavy == 1 && L > 2) {
				return // one 9999-fold expansion per list, short lists only
			}
			for form := 0; form < 3; form++ { // 0 movement statement, 1 moves(), 2 two moves() that differ in the length of the last run
				for sep := 0; sep < 3; sep++ {
					var parts []string
					for _, e := range seq {
						parts = append(parts, e.src)
					}
					var list string
					switch sep {
					case 0:
						list = strings.Join(parts, " ")
					case 1:
						list = strings.Join(parts, ", ")
					default:
						list = strings.Join(parts, "\n\t\t")
						if L > 0 {
							list += ","
						}
					}
					var src, label string
					var seq2 []mvElem
					switch form {
					case 0:
						src, label = c14Consts+"movement M {\n\t\t"+list+"\n}\n", "M"
					case 1:
						src, label = c14Consts+"script S {\n\tapplymovement(1, moves("+list+"))\n}\n", "S_Movement_0"
					default:
						if bad || heavy > 0 || sep != 0 {
							continue
						}
						last := "a"
						for _, e := range seq {
							if len(e.steps) > 0 {
								last = e.steps[len(e.steps)-1]
							}
						}
						seq2 = append(append([]mvElem{}, seq...), mvElem{src: last, steps: []string{last}})
						src, label = c14Consts+"script S {\n\tapplymovement(1, moves("+list+"))\n\tapplymovement(2, moves("+list+" "+last+"))\n}\n", "S_Movement_0"
						if idx%2 == 1 {
							// ... both lists as arguments of ONE command
							src = c14Consts + "script S {\n\tapplymovement(1, moves(" + list + "), 2, moves(" + list + " " + last + "))\n}\n"
						}
					}
					res := comp.Compile(src, comp.Opts{Optimize: true, Switches: sw})
					r.Add("evaluations", 1)
					if multiplied {
						r.Add("nontrivial", 1)
					}
					fail := func(sig, what string) {
						s2 := src
						r.Report(harness.Violation{Sig: sig, Summary: fmt.Sprintf("%s\n  source: %q", what, src), Replay: map[string]interface{}{"source": src, "switches": sw, "problem": what},
							Recheck: func() bool {
								r2 := comp.Compile(s2, comp.Opts{Optimize: true, Switches: sw})
								return (r2.Err == nil) == (res.Err == nil) && r2.Out == res.Out
							}})
					}
					if res.Panic != "" {
						fail("C14:panic", "compiler panic: "+firstLine(res.Panic))
						continue
					}
					if bad {
						if res.Err == nil {
							fail("C14:bad-multiplier-accepted", "a multiplier outside 1..9999 was accepted")
						}
						continue
					}
					if res.Err != nil {
						braceInMoves := false
						for _, e := range seq {
							braceInMoves = braceInMoves || (e.brace && form == 1)
						}
						tag := ""
						if braceInMoves {
							tag = "+brace_case_in_moves"
						}
						fail("C14:rejected:"+firstWords(res.Err.Error(), 5)+tag, "well-formed list rejected: "+res.Err.Error())
						continue
					}
					if seq2 != nil {
						want2 := expectMovementBlock("S_Movement_1", seq2)
						got2, ok2 := blockAfter(res.Out, "S_Movement_1")
						if !ok2 || strings.Join(got2, "\n") != strings.Join(want2, "\n") || !(strings.Contains(res.Out, "\tapplymovement 2, S_Movement_1\n") || strings.Contains(res.Out, "\tapplymovement 1, S_Movement_0, 2, S_Movement_1\n")) {
							fail("C14:second-moves-block-differs", fmt.Sprintf("second moves() block %q, want %q", clip(strings.Join(got2, "\n"), 200), clip(strings.Join(want2, "\n"), 200)))
						}
					}
					want := expectMovementBlock(label, seq)
					got, ok := blockAfter(res.Out, label)
					if !ok || strings.Join(got, "\n") != strings.Join(want, "\n") {
						g, wn := strings.Join(got, "\n"), strings.Join(want, "\n")
						if len(g) > 300 {
							g = g[:300] + "..."
						}
						if len(wn) > 300 {
							wn = wn[:300] + "..."
						}
						fail(fmt.Sprintf("C14:movement-block-differs:form%d", form), fmt.Sprintf("emitted block %q, want %q", g, wn))
					} else if r.WantSample() && multiplied && L == 3 && sep == 2 {
						r.Sample(map[string]interface{}{"source": src, "block": got})
					}
				}
			}
		})
		if done {
			completed = L
		}
	}
	if completed < maxLen {
		r.NotExhaustive(fmt.Sprintf("completed movement lists of length <= %d of planned <= %d", completed, maxLen))
	}
	r.Set("max_movement_list_length_completed", completed)
	r.Set("movement_element_kinds", len(elems))
	c14Marts(r, tier, sw)
	c14Scaled(r, tier)
	c14MassFile(r, tier)
	c14Dictionary(r)
	r.Assume("multipliers with a leading zero are not generated (octal vs decimal is not specified)",
		"expected expansion is computed by the generator: N copies in order, cut after the first step_end, exactly one step_end last")
	return r.Finish(r.Get("evaluations"), r.Get("nontrivial"),
		"every movement list of <= L elements over 43 element kinds (3 steps x 12 multipliers incl. 0, negative, 9999, 10000, hex and a 20-digit number; 7 poryswitch-selected segments in colon, brace and nested forms incl. a nested poryswitch as the element of a colon case that other cases follow) x statement / moves() form (and two moves() in one script - alternately in two commands and as two arguments of one command - that differ only in the length of the last run) x 3 separator styles; every mart list of <= M items over plain items, ITEM_NONE, constants (one equal to ITEM_NONE) and poryswitch segments; plus 'step * N' for every N in 1..10005, decimal and hex, statement and moves(); plus lists of K different steps and marts of K items for every K up to the bound in the coverage; plus every identifier-like literal of the compiler's own source as a step and as a mart item; plus one script holding every moves() list of 6 (thorough 7) steps over 8 names; plus one script with a list of 41 steps for every 2-character (thorough 3-character) ending of its last step name; plus lists with J elements of multiplier 9999 each for every J up to the bound in the coverage; every file defines constants named like the case labels; non-trivial = a multiplier > 1 or a multi-step segment is present")
}

// c14Scaled: the size dimension. Every multiplier value from 1 to 10005,
// decimal and hex, in a statement and in moves(); lists of K different steps and marts of K items for every K
// up to a bound.
func c14Scaled(r *harness.Run, tier string) {
	var ns []int
	for n := 1; n <= 10005; n++ {
		ns = append(ns, n)
	}
	done := r.Parallel(uint64(len(ns))*4, func(w int, idx uint64) {
		n := ns[idx/4]
		variant := int(idx % 4)
		lit := fmt.Sprint(n)
		if variant >= 2 {
			lit = fmt.Sprintf("0x%X", n)
		}
		var src, label string
		if variant%2 == 0 {
			src, label = "movement M {\n\tpre\n\tst * "+lit+"\n\tpost\n}\n", "M"
		} else {
			src, label = "script S {\n\tapplymovement(1, moves(pre st * "+lit+" post))\n}\n", "S_Movement_0"
		}
		res := comp.Compile(src, comp.Opts{Optimize: true})
		r.Add("evaluations", 1)
		r.Add("nontrivial", 1)
		r.Add("multiplier_values", 1)
		fail := func(sig, what string) {
			r.Report(harness.Violation{Sig: sig, Summary: fmt.Sprintf("%s\n  source: %q", what, src), Replay: map[string]interface{}{"source": src, "problem": what}})
		}
		if res.Panic != "" {
			fail("C14:panic", "compiler panic: "+firstLine(res.Panic))
			return
		}
		if n > 9999 {
			if res.Err == nil {
				fail("C14:bad-multiplier-accepted", "a multiplier outside 1..9999 was accepted")
			}
			return
		}
		if res.Err != nil {
			fail("C14:rejected:"+firstWords(res.Err.Error(), 5), "well-formed list rejected: "+res.Err.Error())
			return
		}
		got, ok := blockAfter(res.Out, label)
		good := ok && len(got) == n+4 && got[1] == "\tpre" && got[n+2] == "\tpost" && got[n+3] == "\tstep_end"
		if good {
			for _, l := range got[2 : n+2] {
				if l != "\tst" {
					good = false
					break
				}
			}
		}
		if !good {
			fail(fmt.Sprintf("C14:movement-block-differs:multiplier-form%d", variant%2), fmt.Sprintf("'st * %s' between pre and post: block of %d lines, want label, pre, %d x st, post, step_end", lit, len(got), n))
		}
	})
	maxK := 60
	if tier == "thorough" {
		maxK = 400
	}
	done2 := r.Parallel(uint64(maxK)*3, func(w int, idx uint64) {
		k := int(idx/3) + 1
		form := int(idx % 3)
		var parts, want []string
		var src string
		switch form {
		case 0, 1:
			for i := 0; i < k; i++ {
				parts = append(parts, fmt.Sprintf("s%d", i))
				want = append(want, fmt.Sprintf("\ts%d", i))
			}
			want = append(want, "\tstep_end")
			if form == 0 {
				src = "movement M {\n\t" + strings.Join(parts, "\n\t") + "\n}\n"
				want = append([]string{"M:"}, want...)
			} else {
				src = "script S {\n\tapplymovement(1, moves(" + strings.Join(parts, " ") + "))\n}\n"
				want = append([]string{"S_Movement_0:"}, want...)
			}
		default:
			for i := 0; i < k; i++ {
				parts = append(parts, fmt.Sprintf("IT%d", i))
				want = append(want, fmt.Sprintf("\t.2byte IT%d", i))
			}
			src = "mart M {\n\t" + strings.Join(parts, "\n\t") + "\n}\n"
			want = append(append([]string{"M:"}, want...), "\t.2byte ITEM_NONE")
		}
		res := comp.Compile(src, comp.Opts{Optimize: true})
		r.Add("evaluations", 1)
		r.Add("long_lists", 1)
		label := strings.TrimSuffix(want[0], ":")
		got, ok := blockAfter(res.Out, label)
		if res.Err != nil || res.Panic != "" || !ok || strings.Join(got, "\n") != strings.Join(want, "\n") {
			r.Report(harness.Violation{Sig: fmt.Sprintf("C14:long-list:form%d", form), Summary: fmt.Sprintf("list of %d elements (form %d): error %v, block %q", k, form, res.Err, clip(strings.Join(got, "\n"), 300)), Replay: map[string]interface{}{"source": src, "want": want, "output": res.Out}})
		}
	})
	// lists with J elements of multiplier 9999 each (total expansion J * 9999 steps; no total-size limit is documented)
	maxJ := 8
	if tier == "thorough" {
		maxJ = 16
	}
	done3 := r.Parallel(uint64(maxJ)*2, func(w int, idx uint64) {
		j, form := int(idx/2)+1, int(idx%2)
		var parts []string
		for i := 0; i < j; i++ {
			parts = append(parts, fmt.Sprintf("h%d * 9999", i))
		}
		var src, label string
		if form == 0 {
			src, label = "movement M {\n\t"+strings.Join(parts, "\n\t")+"\n}\n", "M"
		} else {
			src, label = "script S {\n\tapplymovement(1, moves("+strings.Join(parts, " ")+"))\n}\n", "S_Movement_0"
		}
		res := comp.Compile(src, comp.Opts{Optimize: true})
		r.Add("evaluations", 1)
		r.Add("heavy_lists", 1)
		got, ok := blockAfter(res.Out, label)
		good := res.Err == nil && res.Panic == "" && ok && len(got) == j*9999+2 && got[len(got)-1] == "\tstep_end"
		for i := 0; good && i < j; i++ {
			for _, l := range got[1+i*9999 : 1+(i+1)*9999] {
				if l != fmt.Sprintf("\th%d", i) {
					good = false
					break
				}
			}
		}
		if !good {
			r.Report(harness.Violation{Sig: fmt.Sprintf("C14:heavy-list:form%d", form), Summary: fmt.Sprintf("list of %d elements with multiplier 9999 (form %d): error %v %s, block of %d lines, want %d", j, form, res.Err, firstLine(res.Panic), len(got), j*9999+2), Replay: map[string]interface{}{"source": src}})
		}
	})
	r.Set("heavy_list_max_elements", maxJ)
	if !done || !done2 || !done3 {
		r.NotExhaustive("scaled movement / mart lists not completed")
	}
	r.Set("long_list_max_elements", maxK)
}

// c14MassFile: one script with every moves() list of exactly L steps over 8 step names (8^L lists, all different).
// Every command must refer to a block of its own with exactly its steps. A lossy key for "the same movement" (a hash,
// a joined or truncated spelling) meets collisions in a set of this size.
func c14MassFile(r *harness.Run, tier string) {
	L := 6
	if tier == "thorough" {
		L = 7
	}
	names := []string{"walk_up", "walk_down", "walk_left", "walk_right", "face_up", "face_down", "face_left", "face_right"}
	n := 1
	for i := 0; i < L; i++ {
		n *= len(names)
	}
	stepsOf := func(i int) ([]string, []string) {
		st := make([]string, L)
		for k := range st {
			st[k] = names[i%len(names)]
			i /= len(names)
		}
		return st, st
	}
	massMovesFile(r, "C14", "c14MassFile", n, stepsOf)
	massLongLists(r, "C14", tier)
}

// massLongLists: one script with every list "walk_up * 40, m_<xy>" for <xy> over all strings of 2 (thorough: also 3)
// characters from [a-z0-9_]: lists of 41 steps that differ in the last step name only, by every small difference in its
// last characters. (A de-duplication that looks at a summary of a long list - its length, a checksum, a prefix - instead
// of the list merges some of them.)
func massLongLists(r *harness.Run, id, tier string) {
	const alpha = "abcdefghijklmnopqrstuvwxyz0123456789_"
	for _, chars := range []int{2, 3} {
		if chars == 3 && tier != "thorough" {
			break
		}
		n := 1
		for i := 0; i < chars; i++ {
			n *= len(alpha)
		}
		prefix := make([]string, 40)
		for i := range prefix {
			prefix[i] = "walk_up"
		}
		stepsOf := func(i int) ([]string, []string) {
			name := []byte("m_")
			for k := 0; k < chars; k++ {
				name = append(name, alpha[i%len(alpha)])
				i /= len(alpha)
			}
			return []string{"walk_up * 40", string(name)}, append(append([]string{}, prefix...), string(name))
		}
		massMovesFile(r, id, fmt.Sprintf("massLongLists/%d", chars), n, stepsOf)
	}
}

// massMovesFile compiles one script with n commands, the i-th taking moves(<written steps of i>), and demands that each
// command refers to a block of its own (expanded) steps, labelled in order of first use.
func massMovesFile(r *harness.Run, id, generator string, n int, stepsOf func(i int) (written, expanded []string)) {
	if r.Expired() {
		r.NotExhaustive("mass movement file not run")
		return
	}
	var sb strings.Builder
	sb.WriteString("script S {\n")
	for i := 0; i < n; i++ {
		wr, _ := stepsOf(i)
		fmt.Fprintf(&sb, "\tam(%d, moves(%s))\n", i, strings.Join(wr, " "))
	}
	sb.WriteString("}\n")
	res := comp.Compile(sb.String(), comp.Opts{Optimize: true})
	r.Add("evaluations", 1)
	r.Add("nontrivial", 1)
	r.Add("mass_file_moves_lists", int64(n))
	if res.Err != nil || res.Panic != "" {
		r.Report(harness.Violation{Sig: id + ":mass:rejected", Summary: fmt.Sprintf("script with %d moves() lists rejected: %v %s", n, res.Err, firstLine(res.Panic)), Replay: map[string]interface{}{"lists": n, "generator": generator}})
		return
	}
	blocks := map[string][]string{}
	labelOf := make([]string, n)
	cur := ""
	for _, line := range strings.Split(res.Out, "\n") {
		switch {
		case line == "":
			cur = ""
		case line[0] != '\t':
			cur = strings.TrimRight(line, ":")
			if _, dup := blocks[cur]; dup {
				r.Report(harness.Violation{Sig: id + ":mass:label-twice", Summary: "label " + cur + " defined twice in the mass file", Replay: map[string]interface{}{"lists": n, "label": cur, "generator": generator}})
			}
			blocks[cur] = []string{}
		case strings.HasPrefix(line, "\tam "):
			var i int
			var lab string
			if _, err := fmt.Sscanf(line, "\tam %d, %s", &i, &lab); err == nil && i >= 0 && i < n {
				labelOf[i] = lab
			}
		case cur != "" && cur != "S":
			blocks[cur] = append(blocks[cur], strings.TrimPrefix(line, "\t"))
		}
	}
	bad, first := 0, -1
	for i := 0; i < n; i++ {
		_, ex := stepsOf(i)
		want := append(append([]string{}, ex...), "step_end")
		got := blocks[labelOf[i]]
		if labelOf[i] != fmt.Sprintf("S_Movement_%d", i) || strings.Join(got, " ") != strings.Join(want, " ") {
			bad++
			if first < 0 {
				first = i
			}
		}
	}
	if bad > 0 {
		wr, _ := stepsOf(first)
		r.Report(harness.Violation{Sig: id + ":mass:block-differs", Summary: fmt.Sprintf("script with %d different moves() lists: %d commands do not refer to a block of their own steps, e.g. list %d %v -> %s %s", n, bad, first, wr, labelOf[first], clip(strings.Join(blocks[labelOf[first]], " "), 200)), Replay: map[string]interface{}{"lists": n, "first_bad_index": first, "steps": wr, "label": labelOf[first], "generator": generator}})
	}
}

// c14Dictionary: every identifier-like literal of the compiler's own source as a movement step (plain and
// multiplied, between two other steps) and as a mart item; only step_end and ITEM_NONE end a list.
func c14Dictionary(r *harness.Run) {
	words := dictIdents()
	done := r.Parallel(uint64(len(words))*3, func(w int, idx uint64) {
		word := words[idx/3]
		var src, label string
		var want []string
		switch idx % 3 {
		case 0:
			src, label = "movement M {\n\tpre\n\t"+word+" * 2\n\tpost\n}\n", "M"
			want = []string{"M:", "\tpre", "\t" + word}
			if word != "step_end" {
				want = append(want, "\t"+word, "\tpost", "\tstep_end")
			}
		case 1:
			src, label = "script S {\n\tam(1, moves(pre "+word+" post))\n}\n", "S_Movement_0"
			want = []string{"S_Movement_0:", "\tpre", "\t" + word}
			if word != "step_end" {
				want = append(want, "\tpost", "\tstep_end")
			}
		default:
			src, label = "mart M {\n\tPRE\n\t"+word+"\n\tPOST\n}\n", "M"
			want = []string{"M:", "\t.2byte PRE"}
			if word != "ITEM_NONE" {
				want = append(want, "\t.2byte "+word, "\t.2byte POST")
			}
			want = append(want, "\t.2byte ITEM_NONE")
		}
		res := comp.Compile(src, comp.Opts{Optimize: true})
		r.Add("evaluations", 1)
		r.Add("dictionary_sweep", 1)
		got, ok := blockAfter(res.Out, label)
		if res.Err != nil || res.Panic != "" || !ok || strings.Join(got, "\n") != strings.Join(want, "\n") {
			r.Report(harness.Violation{Sig: fmt.Sprintf("C14:dictionary:form%d", idx%3), Summary: fmt.Sprintf("list element %q: error %v; block %q, want %q", word, res.Err, got, want), Replay: map[string]interface{}{"source": src, "want": want, "output": res.Out}})
		}
	})
	if !done {
		r.NotExhaustive("dictionary sweep not completed")
	}
	r.Set("dictionary_words", len(words))
}

func c14Marts(r *harness.Run, tier string, sw map[string]string) {
	type item struct {
		src   string
		items []string
	}
	kinds := []item{
		{"I1", []string{"I1"}}, {"I2", []string{"I2"}}, {"ITEM_NONE", []string{"ITEM_NONE"}},
		{"CI", []string{"ITEM_X"}}, {"CN", []string{"ITEM_NONE"}},
		{"poryswitch(V) { X: P1 _: Q1 }", []string{"P1"}},
		{"poryswitch(V) { Y { P1 P2 } _ { Q1 CI Q2 } }", []string{"Q1", "ITEM_X", "Q2"}},
		{"poryswitch(V) { X { } _: Q1 }", []string{}},
		{"poryswitch(V) { X { P1 poryswitch(W) { 1 { ITEM_NONE P9 } _: P8 } } }", []string{"P1", "ITEM_NONE", "P9"}},
		{"poryswitch(V) { X: poryswitch(W) { 1: P1 _: P2 } Y: Q1 _: Q2 }", []string{"P1"}},
		{"poryswitch(V) { Y: poryswitch(W) { 1: P1 _: P2 } Z { Q1 } _: poryswitch(W) { 2: P3 _: P4 } }", []string{"P4"}},
	}
	maxLen := 4
	if tier == "thorough" {
		maxLen = 6
	}
	nK := uint64(len(kinds))
	completed := -1
	for L := 0; L <= maxLen && !r.Expired(); L++ {
		total := uint64(1)
		for i := 0; i < L; i++ {
			total *= nK
		}
		done := r.Parallel(total, func(w int, idx uint64) {
			var parts []string
			want := []string{"\t.align 2", "M:"}
			x := idx
			ended := false
			n := 0
			for i := 0; i < L; i++ {
				k := kinds[x%nK]
				x /= nK
				parts = append(parts, k.src)
				for _, it := range k.items {
					if ended {
						continue
					}
					if it == "ITEM_NONE" {
						ended = true
						continue
					}
					want = append(want, "\t.2byte "+it)
					n++
				}
			}
			want = append(want, "\t.2byte ITEM_NONE")
			for sep := 0; sep < 2; sep++ {
				list := strings.Join(parts, " ")
				if sep == 1 {
					list = strings.Join(parts, "\n\t")
				}
				src := c14Consts + "const CI = ITEM_X\nconst CN = ITEM_NONE\nmart M {\n\t" + list + "\n}\n"
				res := comp.Compile(src, comp.Opts{Optimize: true, Switches: sw})
				r.Add("evaluations", 1)
				r.Add("mart_lists", 1)
				if ended && n > 0 {
					r.Add("nontrivial", 1)
				}
				if res.Err != nil || res.Panic != "" {
					r.Report(harness.Violation{Sig: "C14:mart-rejected:" + firstWords(fmt.Sprint(res.Err), 5), Summary: fmt.Sprintf("well-formed mart rejected: %v %s\n  source: %q", res.Err, firstLine(res.Panic), src), Replay: map[string]interface{}{"source": src, "switches": sw}})
					continue
				}
				got := nonBlank(strings.Split(res.Out, "\n"))
				// (the statements of the file's prefix come first in the output; the mart under test is the rest)
				if pre := nonBlank(strings.Split(comp.Compile(c14Consts, comp.Opts{Optimize: true, Switches: sw}).Out, "\n")); len(got) >= len(pre) && strings.Join(got[:len(pre)], "\n") == strings.Join(pre, "\n") {
					got = got[len(pre):]
				}
				if strings.Join(got, "\n") != strings.Join(want, "\n") {
					s2 := src
					r.Report(harness.Violation{Sig: "C14:mart-differs", Summary: fmt.Sprintf("mart emitted %q, want %q\n  source: %q", res.Out, strings.Join(want, "\n"), src), Replay: map[string]interface{}{"source": src, "switches": sw, "want": want, "output": res.Out},
						Recheck: func() bool { return comp.Compile(s2, comp.Opts{Optimize: true, Switches: sw}).Out == res.Out }})
				}
			}
		})
		if done {
			completed = L
		}
	}
	if completed < maxLen {
		r.NotExhaustive(fmt.Sprintf("completed mart lists of length <= %d of planned <= %d", completed, maxLen))
	}
	r.Set("max_mart_list_length_completed", completed)
}
