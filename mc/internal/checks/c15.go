package checks

import (
	"fmt"
	"regexp"
	"strings"
	"time"

	"pmc/internal/comp"
	"pmc/internal/harness"
	"pmc/internal/model"
)

// C15 — labels are exported or local exactly as written or as documented by default.

func init() { register(&Check{ID: "C15", Run: runC15}) }

var c15Mods = []string{"", "(global)", "(local)"}

func c15Global(mod string, defGlobal bool) bool {
	switch mod {
	case "(global)":
		return true
	case "(local)":
		return false
	}
	return defGlobal
}

// names of the explicit text / movement / mart statements: plain ones, and ones shaped like the labels the
// compiler generates for other scripts (no script Q or Intro exists, so nothing clashes)
var c15NameSets = [][3]string{{"T", "M", "Mt"}, {"Intro_Text_0", "Intro_Movement_0", "Q_Text_7"}, {"Q_1", "Q_Movement_12", "Map_ON_RESUME"}}

func runC15(tier string) int {
	r := harness.NewRun("C15", "exploration", tier, budget(tier, 50*time.Second, 10*time.Minute))
	generated := regexp.MustCompile(`^(S|S2|Map_ON_LOAD|Map_ON_FRAME_1|Map_ON_TRANSITION)_(\d+|Text_\d+|Movement_\d+)$`)
	// 5 statement kinds x 3 modifiers, 3 label modifiers, 2 statement orders, optimize on/off
	total := uint64(243 * 3 * 14 * 2 * len(c15NameSets) * 2)
	r.Parallel(total, func(w int, idx uint64) {
		x := int(idx)
		ns := c15NameSets[x%len(c15NameSets)]
		x /= len(c15NameSets)
		pv := []string{"A", "Z"}[x%2] // which alternative of the poryswitches in script S is compiled
		x /= 2
		opt := x%2 == 0
		x /= 2
		order := x % 14 // every rotation of the seven statements, forwards and backwards (each statement kind comes first and last)
		x /= 14
		lm := c15Mods[x%3]
		x /= 3
		var m [5]string
		for i := range m {
			m[i] = c15Mods[x%3]
			x /= 3
		}
		pieces := []string{
			"script" + m[0] + " S {\n\tL1" + lm + ":\n\tporyswitch(PV) {\n\t\tA {\n\t\t\tPL(global):\n\t\t\tPM:\n\t\t}\n\t\t_ {\n\t\t\tPL:\n\t\t\tPM(global):\n\t\t}\n\t}\n\tif (flag(A)) {\n\t\tmsgbox(\"hi\")\n\t}\n\twhile (var(V) < 2) {\n\t\tapplymovement(1, moves(u d))\n\t\tL2:\n\t}\n\tswitch (var(W)) {\n\t\tcase 1:\n\t\t\tx\n\t\tdefault:\n\t\t\ty\n\t}\n}\n",
			"text" + m[1] + " " + ns[0] + " {\n\t\"hello\"\n}\n",
			"movement" + m[2] + " " + ns[1] + " {\n\tu\n\td\n}\n",
			"mart" + m[3] + " " + ns[2] + " {\n\tI1\n\tITEM_NONE\n\tI2\n}\n",
			"mapscripts" + m[4] + " Map {\n\tON_RESUME: S\n\tON_LOAD {\n\t\tif (flag(B)) {\n\t\t\tmsgbox(\"map\")\n\t\t}\n\t\tL3" + lm + ":\n\t}\n\tON_FRAME [\n\t\tVAR_A, 0: S\n\t\tVAR_A, 1 {\n\t\t\tmsgbox(\"tab\")\n\t\t\tif (flag(C)) {\n\t\t\t\tz\n\t\t\t}\n\t\t}\n\t]\n\tON_TRANSITION {\n\t\tapplymovement(2, moves(l r))\n\t}\n}\n",
			"text(local) TLong {\n\t\"intro\\p\"\n\t\"hello\"\n}\ntext(global) TLong2 {\n\t\"other\\n\"\n\t\"s2b\"\n}\n" +
				// names that differ from other names of the file only in letter case, with the opposite scope
				"text tlong {\n\t\"lower case one\"\n}\ntext(local) TLONG2 {\n\t\"upper case two\"\n}\nmovement(global) s2 {\n\tcs1\n}\nmart(global) MAP {\n\tI9\n}\nmart map {\n\tI8\n}\n",
			"script S2 {\n\tmsgbox(\"s2a\")\n\tmsgbox(\"s2b\")\n\tapplymovement(3, moves(u d))\n\tapplymovement(4, moves(l r))\n}\n",
		}
		if order >= 7 {
			pieces = []string{pieces[6], pieces[5], pieces[4], pieces[3], pieces[2], pieces[1], pieces[0]}
		}
		pieces = append(append([]string{}, pieces[order%7:]...), pieces[:order%7]...)
		src := strings.Join(pieces, "\n")
		res := comp.Compile(src, comp.Opts{Optimize: opt, Switches: map[string]string{"PV": pv}})
		r.Add("evaluations", 1)
		explicit := lm != ""
		for _, mm := range m {
			explicit = explicit || mm != ""
		}
		if explicit {
			r.Add("nontrivial", 1)
		}
		if res.Err != nil || res.Panic != "" {
			r.Report(harness.Violation{Sig: "C15:rejected", Summary: fmt.Sprintf("rejected: %v %s\n  source: %q", res.Err, firstLine(res.Panic), src), Replay: map[string]interface{}{"source": src}})
			return
		}
		// the same file with line markers on and an input path that contains colons: markers are extra lines, nothing else changes
		// (so every scope judged below is the scope with markers, too)
		if lmRes := comp.Compile(src, comp.Opts{Optimize: opt, Switches: map[string]string{"PV": pv}, LineMarkers: true, Path: "C:\\maps\\a:b\\scripts.pory"}); lmRes.Err != nil || dropMarkerLines(lmRes.Out) != res.Out {
			s2 := src
			r.Report(harness.Violation{Sig: "C15:with-line-markers", Summary: fmt.Sprintf("with line markers and the path C:\\maps\\a:b\\scripts.pory the non-marker lines differ (%v): %s\n  modifiers script/text/movement/mart/mapscripts=%q label=%q optimize=%v", lmRes.Err, firstDiff(dropMarkerLines(lmRes.Out), res.Out), m, lm, opt), Replay: map[string]interface{}{"source": src, "optimize": opt, "output": res.Out, "output_with_markers": lmRes.Out},
				Recheck: func() bool {
					return dropMarkerLines(comp.Compile(s2, comp.Opts{Optimize: opt, Switches: map[string]string{"PV": pv}, LineMarkers: true, Path: "C:\\maps\\a:b\\scripts.pory"}).Out) != res.Out
				}})
		}
		// ... and written on ONE source line (adjacent labels then share a line and a marker)
		if olRes := comp.Compile(oneLine(src), comp.Opts{Optimize: opt, Switches: map[string]string{"PV": pv}, LineMarkers: true, Path: "src/one.pory"}); olRes.Err != nil || dropMarkerLines(olRes.Out) != res.Out {
			r.Report(harness.Violation{Sig: "C15:one-line-with-line-markers", Summary: fmt.Sprintf("written on one line and compiled with line markers the non-marker lines differ (%v): %s\n  modifiers script/text/movement/mart/mapscripts=%q label=%q optimize=%v", olRes.Err, firstDiff(dropMarkerLines(olRes.Out), res.Out), m, lm, opt), Replay: map[string]interface{}{"source": oneLine(src), "optimize": opt, "output": res.Out, "output_with_markers": olRes.Out}})
		}
		want := map[string]bool{ // name -> exported?
			"S": c15Global(m[0], true), ns[0]: c15Global(m[1], true), ns[1]: c15Global(m[2], false), ns[2]: c15Global(m[3], false), "Map": c15Global(m[4], true),
			"TLong": false, "TLong2": true, "tlong": true, "TLONG2": false, "s2": true, "MAP": true, "map": false, "PL": pv == "A", "PM": pv != "A", "L1": c15Global(lm, false), "L2": false, "L3": c15Global(lm, false), "S2": true,
			"Map_ON_LOAD": false, "Map_ON_FRAME": false, "Map_ON_FRAME_1": false, "Map_ON_TRANSITION": false,
		}
		// (the two hoisted movements are shared between scripts: which script owns them depends on the statement order; they are counted below)
		mustHaveGenerated := map[string]bool{"S_Text_0": false, "Map_ON_LOAD_Text_0": false, "Map_ON_FRAME_1_Text_0": false, "S2_Text_0": false}
		hoistedMovements := 0
		seen := map[string]bool{}
		kinds := 0
		fail := func(what string) {
			s2 := src
			r.Report(harness.Violation{Sig: "C15:" + firstWords(what, 3), Summary: fmt.Sprintf("%s\n  modifiers script/text/movement/mart/mapscripts=%q label=%q optimize=%v", what, m, lm, opt), Replay: map[string]interface{}{"source": src, "optimize": opt, "problem": what, "output": res.Out},
				Recheck: func() bool {
					return comp.Compile(s2, comp.Opts{Optimize: opt, Switches: map[string]string{"PV": pv}}).Out == res.Out
				}})
		}
		for _, l := range asmLines(res.Out) {
			if !l.isLabel {
				continue
			}
			if seen[l.name] {
				fail("label " + l.name + " defined twice")
			}
			seen[l.name] = true
			if exp, ok := want[l.name]; ok {
				if exp != l.global {
					fail(fmt.Sprintf("label %s exported=%v, want exported=%v", l.name, l.global, exp))
				}
				continue
			}
			if generated.MatchString(l.name) {
				kinds++
				if strings.Contains(l.name, "_Movement_") {
					hoistedMovements++
				}
				if _, ok := mustHaveGenerated[l.name]; ok {
					mustHaveGenerated[l.name] = true
				}
				if l.global {
					fail("generated label " + l.name + " is exported")
				}
				continue
			}
			fail("unexpected label " + l.name + " in the output")
		}
		for n := range want {
			if !seen[n] {
				fail("label " + n + " missing from the output")
			}
		}
		if hoistedMovements != 2 {
			fail(fmt.Sprintf("%d hoisted movement labels in the output, want 2 (two different moves() lists, each written twice)", hoistedMovements))
		}
		for n, ok := range mustHaveGenerated {
			if !ok {
				fail("generated label " + n + " missing from the output")
			}
		}
		if r.WantSample() && explicit && order == 1 {
			r.Sample(map[string]interface{}{"modifiers": m, "label_modifier": lm, "optimize": opt, "labels_checked": len(seen), "generated_labels": kinds})
		}
	})
	// dictionary sweep: every identifier-like literal of the compiler's own source as the name of each statement kind and
	// of a label inside a script, under every modifier
	words := dictIdents()
	sweepDone := r.Parallel(uint64(len(words))*6*3, func(w int, idx uint64) {
		mod := c15Mods[idx%3]
		kind := int(idx / 3 % 6)
		word := words[idx/18]
		var src string
		defGlobal := true
		switch kind {
		case 0:
			src = "script" + mod + " " + word + " {\n\tx\n}\n"
		case 1:
			src = "text" + mod + " " + word + " {\n\t\"t\"\n}\n"
		case 2:
			src, defGlobal = "movement"+mod+" "+word+" {\n\tu\n}\n", false
		case 3:
			src, defGlobal = "mart"+mod+" "+word+" {\n\tI1\n}\n", false
		case 4:
			src = "mapscripts" + mod + " " + word + " {\n\tT1: Sx\n}\n"
		default:
			src, defGlobal = "script Sq {\n\tx\n\t"+word+mod+":\n\ty\n}\n", false
		}
		res := comp.Compile(src, comp.Opts{Optimize: true})
		r.Add("evaluations", 1)
		r.Add("dictionary_sweep", 1)
		want := c15Global(mod, defGlobal)
		found := 0
		for _, l := range asmLines(res.Out) {
			if l.isLabel && l.name == word {
				found++
				if l.global != want {
					found = -100
				}
			}
		}
		if res.Err != nil || res.Panic != "" || found != 1 {
			r.Report(harness.Violation{Sig: fmt.Sprintf("C15:dictionary:kind%d", kind), Summary: fmt.Sprintf("name %q, statement kind %d, modifier %q: error %v; label not emitted exactly once with exported=%v\n  output: %q", word, kind, mod, res.Err, want, clip(res.Out, 300)), Replay: map[string]interface{}{"source": src, "output": res.Out}})
		}
	})
	if !sweepDone {
		r.NotExhaustive("dictionary sweep not completed")
	}
	r.Set("dictionary_words", len(words))
	// the last clause over the control-flow program families: in every program, with the script written without a
	// modifier, as (global) and as (local), every sub-label is local, the script label follows the modifier, and every
	// label written in the script is local
	plans, swN := liftPlans(tier)
	forEachEngineProgram(r, plans, swN, func(w int, p engineProgram) {
		scripts := []*model.Script{p.Script}
		base := model.Print(scripts)
		user := model.UserLabels(scripts)
		for mi, mod := range c15Mods {
			src := strings.Replace(base, "script S {", "script"+mod+" S {", 1)
			for _, opt := range []bool{true, false} {
				res := comp.Compile(src, comp.Opts{Optimize: opt})
				if res.Err != nil || res.Panic != "" {
					continue
				}
				r.Add("evaluations", 1)
				r.Add("family_programs_x_modifier_x_optimize", 1)
				if mi > 0 {
					r.Add("nontrivial", 1)
				}
				for _, l := range asmLines(res.Out) {
					if !l.isLabel {
						continue
					}
					want := false
					kind := "generated label"
					if l.name == "S" {
						want, kind = c15Global(mod, true), "script"
					} else if user[l.name] {
						kind = "label written in the script"
					}
					if l.global != want {
						s2 := src
						r.Report(harness.Violation{Sig: "C15:family:" + strings.ReplaceAll(kind, " ", "_"), Summary: fmt.Sprintf("%s, script%s, optimize=%v: %s %s exported=%v, want %v", p.Desc, mod, opt, kind, l.name, l.global, want), Replay: map[string]interface{}{"source": src, "optimize": opt, "output": res.Out},
							Recheck: func() bool { return comp.Compile(s2, comp.Opts{Optimize: opt}).Out == res.Out }})
						break
					}
				}
			}
		}
	})
	// A second script of the file is named like a sub-label the first script could generate (S_1 .. S_9). Wherever the
	// output is still a valid file (every label defined once), the second script is a script: exported unless (local).
	tmpl := seqTemplates()
	shadowDone := r.Parallel(uint64(len(tmpl))*9*2, func(w int, idx uint64) {
		t, n, order := tmpl[idx/18], int(idx/2%9)+1, int(idx%2)
		first := model.Print([]*model.Script{{Name: "S", Body: []model.Stmt{mcmd("a"), t(1), mcmd("z")}}})
		for _, mod := range c15Mods {
			second := fmt.Sprintf("script%s S_%d {\n\tlock\n}\n", mod, n)
			src := first + second
			if order == 1 {
				src = second + first
			}
			for _, opt := range []bool{true, false} {
				res := comp.Compile(src, comp.Opts{Optimize: opt})
				if res.Err != nil || res.Panic != "" {
					continue
				}
				defs := map[string]int{}
				exported := map[string]bool{}
				for _, l := range asmLines(res.Out) {
					if l.isLabel {
						defs[l.name]++
						exported[l.name] = l.global
					}
				}
				valid := true
				for _, c := range defs {
					valid = valid && c == 1
				}
				name := fmt.Sprintf("S_%d", n)
				if !valid || defs[name] != 1 {
					continue // the clash itself is C20's / C04's business
				}
				r.Add("evaluations", 1)
				r.Add("scripts_named_like_sublabels", 1)
				if want := c15Global(mod, true); exported[name] != want || !exported["S"] {
					s2 := src
					r.Report(harness.Violation{Sig: "C15:script-named-like-sublabel", Summary: fmt.Sprintf("script%s %s next to script S (optimize=%v): exported=%v, want %v (S exported=%v)\n  source: %q", mod, name, opt, exported[name], want, exported["S"], src), Replay: map[string]interface{}{"source": src, "optimize": opt, "output": res.Out},
						Recheck: func() bool { return comp.Compile(s2, comp.Opts{Optimize: opt}).Out == res.Out }})
				}
			}
		}
	})
	if !shadowDone {
		r.NotExhaustive("scripts named like sub-labels not completed")
	}
	r.Assume("documented defaults: script, text, mapscripts global; movement, mart local; labels inside scripts local; every generated label local")
	return r.Finish(r.Get("evaluations"), r.Get("nontrivial"),
		"the full finite product {script, text, movement, mart, mapscripts} x {no modifier, (global), (local)} (3^5) x in-script label modifier (3) x 14 statement orders (every rotation, forwards and backwards; two moves() lists occur twice in the file; two multi-part texts end in the lines of shorter texts; five statements whose names differ from other names of the file only in letter case and have the opposite scope) x optimize on/off x which alternative of two poryswitches (the same label name with different modifiers in the two cases) is compiled x 3 sets of names for the explicit data statements (plain, and shaped like generated hoisted / sub-label / map-script names of scripts that do not exist); the file forces every generated label kind (sub-labels of if/while/switch, hoisted text and movement, inline map script, table, table inline script and their hoisted data); every label definition of the output is classified by the naming scheme and must have the expected scope, and the same file compiled with line markers and an input path containing colons must give the same non-marker lines; plus every identifier-like literal of the compiler's own source as the name of each statement kind and of a label, under every modifier; plus every program of the control-flow families (C01 / C03 / C04 bounds) x script modifier x optimize: script label per modifier, every other label local; plus, for every statement template, a second script named S_1 .. S_9 (like a sub-label of the first) before / after it under every modifier: wherever every label is still defined once it is exported like any script; non-trivial = at least one explicit modifier")
}
