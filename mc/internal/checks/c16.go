package checks

import (
	"fmt"
	"regexp"
	"strings"
	"time"

	"pmc/internal/comp"
	"pmc/internal/harness"
	"pmc/internal/model"
)

// C16 — line markers are transparent and name the right source line.

func init() { register(&Check{ID: "C16", Run: runC16}) }

// A corpus program is a token stream with construct tags:
//
//	⟦id   opens construct id, ⟧ closes the innermost one, ¶ is a line break of
//	the default (one statement per line) layout. The RAW token may span lines.
type c16Prog struct {
	name  string
	text  string
	lines [][2]string // output line prefix -> construct id whose extent must contain the marker's line
	upper [][2]string // output line prefix -> construct id: the marker must not name a line after that construct's first line
	cfg   bool        // needs the AutoVar command config
}

var c16Corpus = []c16Prog{
	{name: "control", text: `script S1 { ¶ ⟦c1 cmd1 ( a , b ) ⟧ ¶ ⟦l1 Lab1 : ⟧ ¶ if ( ⟦o1 flag ( F1 ) ⟧ && ⟦o2 var ( V2 ) == 3 ⟧ ) { ¶ ⟦c2 cmd2 ⟧ ¶ } elif ( ⟦o3 ! defeated ( T3 ) ⟧ ) { ¶ ⟦c3 cmd3 ( x ) ⟧ ¶ } else { ¶ ⟦c4 cmd4 ⟧ ¶ } ¶ while ( ⟦o4 var ( V4 ) < value ( 7 ) ⟧ ) { ¶ ⟦c5 cmd5 ⟧ ¶ } ¶ ⟦l2 Lab2 ( global ) : ⟧ ¶ ⟦c9 cmd9 ⟧ ¶ }`,
		lines: [][2]string{{"\tcmd1 ", "c1"}, {"Lab1:", "l1"}, {"\tgoto_if_set F1,", "o1"}, {"\tcompare V2, 3", "o2"}, {"\tchecktrainerflag T3", "o3"}, {"\tcmd2", "c2"}, {"\tcmd3 x", "c3"}, {"\tcmd4", "c4"}, {"\tcompare_var_to_value V4, 7", "o4"}, {"\tcmd5", "c5"}, {"Lab2::", "l2"}, {"\tcmd9", "c9"}}},
	{name: "switch", text: `script S2 { ¶ ⟦s1 switch ( var ( W1 ) ) ⟧ { ¶ ⟦k1 case 11 : ⟧ ¶ ⟦c6 cmd6 ⟧ ¶ ⟦k2 case 12 : ⟧ ¶ ⟦k3 case 13 : ⟧ ¶ ⟦c7 cmd7 ⟧ ¶ default : ¶ ⟦c8 cmd8 ⟧ ¶ } ¶ do { ¶ ⟦c15 cmd15 ⟧ ¶ } while ( ⟦o5 flag ( F5 ) == FALSE ⟧ || ⟦o6 ! var ( V6 ) ⟧ ) ¶ }`,
		lines: [][2]string{{"\tswitch W1", "s1"}, {"\tcase 11,", "k1"}, {"\tcase 12,", "k2"}, {"\tcase 13,", "k3"}, {"\tcmd6", "c6"}, {"\tcmd7", "c7"}, {"\tcmd8", "c8"}, {"\tcmd15", "c15"}, {"\tgoto_if_unset F5,", "o5"}, {"\tcompare V6, 0", "o6"}}},
	{name: "autovar", cfg: true, text: `script S4 { ¶ if ( ⟦a1 avfix ( 1 ) == 2 ⟧ ) { ¶ ⟦c20 cmd20 ⟧ ¶ } ¶ ⟦a2 switch ( avfix ( 3 ) ) ⟧ { ¶ ⟦k4 case 14 : ⟧ ¶ ⟦c21 cmd21 ⟧ ¶ } ¶ while ( ⟦a3 ! avp0 ( VAR_P , 4 ) ⟧ ) { ¶ ⟦c22 cmd22 ⟧ ¶ } ¶ }`,
		lines: [][2]string{{"\tcompare VAR_RESULT, 2", "a1"}, {"\tavfix 3", "a2"}, {"\tswitch VAR_RESULT", "a2"}, {"\tcase 14,", "k4"}, {"\tcompare VAR_P, 0", "a3"}, {"\tcmd20", "c20"}, {"\tcmd21", "c21"}, {"\tcmd22", "c22"}}},
	{name: "data", text: `⟦m1 movement Mv1 { ¶ ⟦st1 stepa ⟧ ¶ ⟦st2 stepb * 2 ⟧ ¶ } ⟧ ¶ ⟦t1 text Tx1 { ¶ "txt1" ¶ } ⟧ ¶ ⟦t2 text Tx2 { ¶ format ( "fmt2" , "TEST" , 40 ) ¶ } ⟧ ¶ ⟦ma1 mart Mt1 { ¶ ⟦i1 ITEM1 ⟧ ¶ ⟦i2 ITEM2 ⟧ ¶ } ⟧`,
		lines: [][2]string{{"Mv1:", "m1"}, {"\tstepa", "st1"}, {"\tstepb", "st2"}, {"\t.string \"txt1$\"", "t1"}, {"\t.string \"fmt2$\"", "t2"}, {"Mt1:", "ma1"}, {"\t.2byte ITEM1", "i1"}, {"\t.2byte ITEM2", "i2"}},
		upper: [][2]string{{"\tstepb", "st2"}}}, // (round 13) a multiplied step is written where its name is: a multiplier on a later line does not move it
	{name: "mapscripts", text: `mapscripts Map1 { ¶ ⟦e1 TYPE1 : Sx ⟧ ¶ ⟦e2 TYPE2 { ⟧ ¶ ⟦c10 cmd10 ⟧ ¶ } ¶ ⟦e3 TYPE3 [ ⟧ ¶ ⟦te1 VARA , 1 : Sy ⟧ ¶ ⟦te2 VARB , 2 { ⟧ ¶ ⟦c11 cmd11 ⟧ ¶ } ¶ ] ¶ }`,
		lines: [][2]string{{"\tmap_script TYPE1, Sx", "e1"}, {"\tmap_script TYPE2, ", "e2"}, {"\tmap_script TYPE3, ", "e3"}, {"\tmap_script_2 VARA, 1, Sy", "te1"}, {"\tmap_script_2 VARB, 2, ", "te2"}, {"\tcmd10", "c10"}, {"\tcmd11", "c11"}}},
	{name: "inline+raw", text: `script S3 { ¶ ⟦c12 cmd12 ( "inl1" ) ⟧ ¶ ⟦c13 cmd13 ( 1 , moves ( ⟦st3 stepc ⟧ ⟦st4 stepd ⟧ ) ) ⟧ ¶ ⟦c14 cmd14 ( format ( "fmt3" ) , ascii"inl2" ) ⟧ ¶ } ¶ raw ⟦raw RAW ⟧`,
		lines: [][2]string{{"\tcmd12 ", "c12"}, {"\t.string \"inl1$\"", "c12"}, {"\tcmd13 ", "c13"}, {"S3_Movement_0:", "c13"}, {"\tstepc", "st3"}, {"\tstepd", "st4"}, {"\tcmd14 ", "c14"}, {"\t.string \"fmt3$\"", "c14"}, {"\t.ascii \"inl2\\0\"", "c14"}}},
	{name: "multi-part text", text: `script S5 { ¶ ⟦c30 cmd30 ( ⟦x1 MPT1 ⟧ , 7 ) ⟧ ¶ ⟦c31 cmd31 ⟧ ¶ } ¶ ⟦t3 text Tx3 { ¶ ⟦x2 MPT2 ⟧ ¶ } ⟧`,
		lines: [][2]string{{"\tcmd30 ", "c30"}, {"\t.string \"pa1", "c30"}, {"\tcmd31", "c31"}, {"\t.string \"pb1", "t3"}},
		upper: [][2]string{{"\t.string \"pa1", "x1"}, {"\t.string \"pb1", "x2"}}},
	// an explicit, multiplied terminator in the middle of a movement (nothing after the first step_end is emitted, with or without markers)
	{name: "terminator", text: `⟦m2 movement Mv2 { ¶ ⟦st5 stepe ⟧ ¶ ⟦se step_end * 2 ⟧ ¶ ⟦st7 stepf ⟧ ¶ } ⟧ ¶ script S8 { ¶ ⟦c50 cmd50 ( moves ( ⟦st8 stepg * 2 ⟧ ⟦se step_end * 3 ⟧ steph ) ) ⟧ ¶ } ¶ ⟦ma2 mart Mt2 { ¶ ⟦i3 ITEM3 ⟧ ¶ ⟦i4 ITEM_NONE ⟧ ¶ ⟦i5 ITEM5 ⟧ ¶ } ⟧`,
		lines: [][2]string{{"\tstepe", "st5"}, {"\tstepg", "st8"}, {"\tcmd50 ", "c50"}, {"S8_Movement_0:", "c50"}, {"\t.2byte ITEM3", "i3"}, {"\tstep_end", "se"}, {"\t.2byte ITEM_NONE", "i4"}, {"Mv2:", "m2"}, {"Mt2:", "ma2"}},
		upper: [][2]string{{"\tstepg", "st8"}}},
	// the same content formatted twice with different string types, and once more as a text statement (anything remembered from the first call must not give the later texts its line)
	{name: "format twice", text: `script S9 { ¶ ⟦c60 cmd60 ( format ( "fmtx" , "TEST" , 40 ) ) ⟧ ¶ ⟦c61 cmd61 ⟧ ¶ ⟦c62 cmd62 ( format ( ascii"fmtx" , "TEST" , 40 ) ) ⟧ ¶ } ¶ ⟦t9 text Tx9 { ¶ format ( braille"fmtx" , "TEST" , 40 ) ¶ } ⟧`,
		lines: [][2]string{{"\tcmd60 ", "c60"}, {"\tcmd61", "c61"}, {"\tcmd62 ", "c62"}, {"\t.string \"fmtx$\"", "c60"}, {"\t.ascii \"fmtx\\0\"", "c62"}, {"\t.braille \"fmtx$\"", "t9"}}},
	// constructs whose first character is not ASCII (commands, steps, items, labels, the continuation line of a multi-line literal):
	// in the one-token-per-line layouts every such token starts a line
	{name: "non-ascii starts", text: `script S10 { ¶ ⟦c70 écmd ( éa , 1 ) ⟧ ¶ ⟦l7 Élabel : ⟧ ¶ ⟦c71 ñcmd ⟧ ¶ ⟦c72 cmd72 ( MPT3 ) ⟧ ¶ ⟦c73 cmd73 ⟧ ¶ } ¶ ⟦m7 movement Mv7 { ¶ ⟦st70 épas ⟧ ¶ ⟦st71 ñpas * 2 ⟧ ¶ } ⟧ ¶ ⟦ma7 mart Mt7 { ¶ ⟦i70 Éther ⟧ ¶ ⟦i71 ITEM71 ⟧ ¶ } ⟧`,
		lines: [][2]string{{"\técmd ", "c70"}, {"Élabel:", "l7"}, {"\tñcmd", "c71"}, {"\tcmd72 ", "c72"}, {"\t.string \"Bonjour", "c72"}, {"\tcmd73", "c73"}, {"Mv7:", "m7"}, {"\tépas", "st70"}, {"\tñpas", "st71"}, {"Mt7:", "ma7"}, {"\t.2byte Éther", "i70"}, {"\t.2byte ITEM71", "i71"}}},
	// a raw block whose lines contain a lone carriage return, a multi-byte character and a CRLF line end, followed by more source
	{name: "raw content", text: `raw ⟦raw RAW2 ⟧ ¶ script S6 { ¶ ⟦c40 cmd40 ⟧ ¶ } ¶ raw ⟦raw RAW ⟧ ¶ script S7 { ¶ ⟦c41 cmd41 ⟧ ¶ }`,
		lines: [][2]string{{"\tcmd40", "c40"}, {"\tcmd41", "c41"}}},
}

// multi-part string literals written over several lines (single tokens with a fixed inner layout)
const c16Multi1 = "\"pa1\\n\"\n\t\t\"pa2\\n\"\n\n\t\t\"pa3\""
const c16Multi2 = "\"pb1\\p\"\n\t\"pb2\""

const c16Raw = "`rawl0\nrawl1\n\nrawl3\n`"
const c16Multi3 = "\"Bonjour\nété\nça va\""
const c16Raw2 = "`rawm0\nrawm1\rrawm1b\nrawm2 é\r\nrawm3\nrawm4 1, \\\nrawm4b 2, \\\nrawm4c 3\nrawm5\n`" // (also lines that end in a backslash: raw text is verbatim)

type c16Tok struct {
	text string
	tags []string // constructs this token belongs to
	nl   bool     // default layout: newline after this token
}

func c16Parse(text string) []c16Tok {
	var toks []c16Tok
	var stack []string
	for _, w := range strings.Fields(text) {
		switch {
		case strings.HasPrefix(w, "⟦"):
			stack = append(stack, strings.TrimPrefix(w, "⟦"))
		case w == "⟧":
			stack = stack[:len(stack)-1]
		case w == "¶":
			toks[len(toks)-1].nl = true
		default:
			switch w {
			case "RAW":
				w = c16Raw
			case "RAW2":
				w = c16Raw2
			case "MPT1":
				w = c16Multi1
			case "MPT2":
				w = c16Multi2
			case "MPT3":
				w = c16Multi3
			}
			toks = append(toks, c16Tok{text: w, tags: append([]string{}, stack...)})
		}
	}
	return toks
}

var c16Extras = []string{"\n", "\n\n", " # 7 \"c\"\n", "\n// c\n\n"} // the '#' comment is shaped like a preprocessor line marker: it is a comment all the same

// c16Render lays the tokens out. base: 0 default, 1 one token per line, 2 all
// on one line. extra[gap] is appended to the separator after token gap.
// It returns the source, each construct's [first,last] line and the line of the raw token.
func c16Render(toks []c16Tok, base int, extra map[int]string) (string, map[string][2]int, int, int) {
	var sb strings.Builder
	line := 1
	ext := map[string][2]int{}
	rawLine := 0
	crlf := base >= 3 // bases 3 and 4: bases 0 and 1 with Windows line ends between the tokens
	base %= 3
	for i, t := range toks {
		start := line
		sb.WriteString(t.text)
		line += strings.Count(t.text, "\n")
		if t.text == c16Raw {
			rawLine = start
		}
		if t.text == c16Raw2 {
			// only '\n' ends a source line
			for k, rl := range strings.Split(strings.Trim(t.text, "`"), "\n") {
				if rl != "" {
					ext["rawm:"+rl] = [2]int{start + k, start + k}
				}
			}
		}
		for _, tag := range t.tags {
			e, ok := ext[tag]
			if !ok {
				e = [2]int{start, line}
			}
			if start < e[0] {
				e[0] = start
			}
			if line > e[1] {
				e[1] = line
			}
			ext[tag] = e
		}
		if i == len(toks)-1 {
			break
		}
		sep := " "
		switch base {
		case 0:
			if t.nl {
				sep = "\n"
			}
		case 1:
			sep = "\n"
		}
		sep += extra[i]
		if crlf {
			sep = strings.ReplaceAll(sep, "\n", "\r\n")
		}
		sb.WriteString(sep)
		line += strings.Count(sep, "\n")
	}
	if crlf {
		sb.WriteString("\r")
	}
	sb.WriteString("\n")
	return sb.String(), ext, rawLine, line
}

var markerRe = regexp.MustCompile(`^# (-?\d+) "(.*)"$`)

func stripMarkers(out string) (string, int) {
	var keep []string
	n := 0
	for _, l := range strings.Split(out, "\n") {
		if markerRe.MatchString(l) {
			n++
			continue
		}
		keep = append(keep, l)
	}
	return strings.Join(keep, "\n"), n
}

func runC16(tier string) int {
	r := harness.NewRun("C16", "exploration", tier, budget(tier, 50*time.Second, 12*time.Minute))
	maxIns := 2
	if tier == "thorough" {
		maxIns = 3
	}
	paths := []string{`dir\sub/f.pory`, `other/g.pory`, `h.pory`, `dïr\ポケ\é.pory`}
	for pi := range c16Corpus {
		prog := c16Corpus[pi]
		toks := c16Parse(prog.text)
		G := len(toks) - 1
		nE := len(c16Extras)
		// layouts: 3 baselines + every insertion of <= maxIns extras into the default layout
		type layout struct {
			base  int
			extra map[int]string
		}
		var layouts []layout
		layouts = append(layouts, layout{0, nil}, layout{1, nil}, layout{2, nil}, layout{3, nil}, layout{4, nil})
		var rec func(start, left int, cur map[int]string)
		rec = func(start, left int, cur map[int]string) {
			if len(cur) > 0 {
				cp := map[int]string{}
				for k, v := range cur {
					cp[k] = v
				}
				layouts = append(layouts, layout{0, cp})
			}
			if left == 0 {
				return
			}
			for g := start; g < G; g++ {
				for e := 0; e < nE; e++ {
					cur[g] = c16Extras[e]
					rec(g+1, left-1, cur)
				}
				delete(cur, g)
			}
		}
		ins := maxIns
		if G > 70 && ins > 2 && tier != "thorough" {
			ins = 2
		}
		rec(0, ins, map[int]string{})
		r.Add("layouts", int64(len(layouts)))
		opts := comp.Opts{Optimize: true}
		if prog.cfg {
			opts.Cmd = autoCfg
		}
		done := r.Parallel(uint64(len(layouts)), func(w int, li uint64) {
			lay := layouts[li]
			// the path changes from one compilation to the next, so a path remembered from an earlier compilation shows
			path := paths[li%uint64(len(paths))]
			wantPath := strings.ReplaceAll(path, `\`, `\\`)
			src, ext, rawLine, nLines := c16Render(toks, lay.base, lay.extra)
			on, off, nopath := opts, opts, opts
			on.LineMarkers, on.Path = true, path
			off.LineMarkers, off.Path = false, path
			nopath.LineMarkers, nopath.Path = true, ""
			ro, rf, rn := comp.Compile(src, on), comp.Compile(src, off), comp.Compile(src, nopath)
			r.Add("evaluations", 1)
			if nLines >= 2 {
				r.Add("nontrivial", 1)
			}
			fail := func(sig, what string) {
				r.Report(harness.Violation{Sig: sig, Summary: fmt.Sprintf("program %s: %s\n  source: %q", prog.name, what, clip(src, 700)), Replay: map[string]interface{}{"program": prog.name, "source": src, "path": path, "earlier_paths_in_this_process": paths, "problem": what, "output": ro.Out},
					Recheck: func() bool {
						// replay a two-step history: another path first, then this one
						prev := on
						prev.Path = paths[(li+1)%uint64(len(paths))]
						comp.Compile(src, prev)
						return comp.Compile(src, on).Out == ro.Out
					}})
			}
			if ro.Err != nil || rf.Err != nil || rn.Err != nil || ro.Panic+rf.Panic+rn.Panic != "" {
				fail("C16:rejected:"+firstWords(fmt.Sprint(ro.Err), 5), fmt.Sprintf("layout variant rejected: %v %v %v %s", ro.Err, rf.Err, rn.Err, firstLine(ro.Panic+rf.Panic+rn.Panic)))
				return
			}
			// (1) transparency
			stripped, nMarkers := stripMarkers(ro.Out)
			if stripped != rf.Out {
				fail("C16:not-transparent", "removing the marker lines from the -lm output does not give the -lm=false output: "+firstDiff(stripped, rf.Out))
			}
			// (2) no path, no markers
			if _, n := stripMarkers(rn.Out); n != 0 || rn.Out != rf.Out {
				fail("C16:markers-without-path", "markers emitted (or output changed) without an input path")
			}
			r.Add("markers_checked", int64(nMarkers))
			// (3) every marker names the path and a line inside the extent of what follows
			lines := strings.Split(ro.Out, "\n")
			for i, l := range lines {
				m := markerRe.FindStringSubmatch(l)
				if m == nil {
					continue
				}
				var ln int
				fmt.Sscan(m[1], &ln)
				if m[2] != wantPath {
					fail("C16:wrong-path", fmt.Sprintf("marker %q does not name the input file %q", l, wantPath))
				}
				if ln < 1 || ln > nLines {
					fail("C16:line-out-of-range", fmt.Sprintf("marker %q is outside 1..%d (next line %q)", l, nLines, lines[i+1]))
					continue
				}
				next := ""
				if i+1 < len(lines) {
					next = lines[i+1]
				}
				if markerRe.MatchString(next) {
					fail("C16:marker-before-marker", "two markers in a row")
					continue
				}
				// raw lines: exact source line
				if strings.HasPrefix(next, "rawl") || (next == "" && rawLine > 0 && i > 0 && rawContext(lines, i)) {
					idx := rawIndex(lines, i)
					if idx >= 0 && ln != rawLine+idx {
						fail("C16:raw-line", fmt.Sprintf("marker %q before raw line %d %q, which is on source line %d", l, idx, next, rawLine+idx))
					}
					continue
				}
				if strings.HasPrefix(next, "rawm") {
					e, ok := ext["rawm:"+next]
					if !ok {
						fail("C16:raw-line-content", fmt.Sprintf("raw output line %q is not a line of the raw block", next))
					} else if ln != e[0] {
						fail("C16:raw-line", fmt.Sprintf("marker %q before raw line %q, which is on source line %d", l, next, e[0]))
					}
					continue
				}
				tag := ""
				for _, lp := range prog.lines {
					if strings.HasPrefix(next, lp[0]) {
						tag = lp[1]
						break
					}
				}
				if tag == "" {
					// The corpus does not know this output line (the compiler renders the construct differently
					// from what the corpus expects): not a verdict, but the run is not exhaustive.
					r.Add("markers_before_unknown_lines", 1)
					continue
				}
				e := ext[tag]
				if ln < e[0] || ln > e[1] {
					fail("C16:wrong-line:"+tagKind(tag), fmt.Sprintf("marker %q precedes %q, whose construct (%s) is written on lines %d..%d", l, next, tag, e[0], e[1]))
				}
				for _, up := range prog.upper {
					if strings.HasPrefix(next, up[0]) && ln > ext[up[1]][0] {
						fail("C16:after-first-line:"+tagKind(up[1]), fmt.Sprintf("marker %q precedes %q, whose construct starts on line %d (a text whose first part is there - the following lines would be numbered past the text - or a step whose name is there and whose multiplier follows on a later line)", l, next, ext[up[1]][0]))
					}
				}
			}
			if r.WantSample() && len(lay.extra) == 2 {
				r.Sample(map[string]interface{}{"program": prog.name, "source": src, "markers": nMarkers})
			}
		})
		if !done {
			r.NotExhaustive("layouts of program " + prog.name + " not completed")
		}
	}
	// transparency over the program families of C01 / C03 / C04 (every control-flow shape up to the engine bounds, the
	// dead-label, sequence and scaled programs): -lm output minus its marker lines == -lm=false output, each marker
	// names the path and a line inside the file, no markers without a path; optimize on and off
	plans, swN := liftPlans(tier)
	forEachEngineProgram(r, plans, swN, func(w int, p engineProgram) {
		src := model.Print([]*model.Script{p.Script})
		nLines := strings.Count(src, "\n")
		for _, opt := range []bool{true, false} {
			on := comp.Compile(src, comp.Opts{Optimize: opt, LineMarkers: true, Path: "fam.pory"})
			off := comp.Compile(src, comp.Opts{Optimize: opt})
			r.Add("evaluations", 1)
			r.Add("family_programs_x_optimize", 1)
			if on.Panic+off.Panic != "" || (on.Err == nil) != (off.Err == nil) {
				r.Report(harness.Violation{Sig: "C16:family:accept-differs", Summary: fmt.Sprintf("%s: line markers change acceptance: %v / %v %s", p.Desc, on.Err, off.Err, firstLine(on.Panic+off.Panic)), Replay: map[string]interface{}{"source": src, "optimize": opt}})
				continue
			}
			if on.Err != nil {
				continue
			}
			r.Add("nontrivial", 1)
			stripped, n := stripMarkers(on.Out)
			r.Add("markers_checked", int64(n))
			if stripped != off.Out {
				s2 := src
				r.Report(harness.Violation{Sig: "C16:family:not-transparent", Summary: fmt.Sprintf("%s optimize=%v: removing the marker lines from the -lm output does not give the -lm=false output: %s\n  source: %q", p.Desc, opt, firstDiff(stripped, off.Out), clip(src, 500)), Replay: map[string]interface{}{"source": src, "optimize": opt, "output": on.Out, "output_without_markers": off.Out},
					Recheck: func() bool {
						a, _ := stripMarkers(comp.Compile(s2, comp.Opts{Optimize: opt, LineMarkers: true, Path: "fam.pory"}).Out)
						return a != comp.Compile(s2, comp.Opts{Optimize: opt}).Out
					}})
				continue
			}
			for _, l := range strings.Split(on.Out, "\n") {
				if m := markerRe.FindStringSubmatch(l); m != nil {
					var ln int
					fmt.Sscan(m[1], &ln)
					if m[2] != "fam.pory" || ln < 1 || ln > nLines {
						r.Report(harness.Violation{Sig: "C16:family:marker-range", Summary: fmt.Sprintf("%s: marker %q does not name the input file and a line in 1..%d", p.Desc, l, nLines), Replay: map[string]interface{}{"source": src, "optimize": opt, "output": on.Out}})
						break
					}
				}
			}
		}
	})
	// ... and over the data families (hoisted texts and movements in every context, mapscripts statements, file-level programs)
	forEachDataFamilyFile(r, tier, func(fp *fileProgram) {
		nLines := strings.Count(fp.Src, "\n") + 1
		for _, opt := range []bool{true, false} {
			oOn, oOff := fp.Opts, fp.Opts
			oOn.Optimize, oOff.Optimize = opt, opt
			oOn.LineMarkers, oOn.Path = true, "data.pory"
			oOff.LineMarkers, oOff.Path = false, ""
			on, off := comp.Compile(fp.Src, oOn), comp.Compile(fp.Src, oOff)
			r.Add("evaluations", 1)
			r.Add("data_family_files_x_optimize", 1)
			if on.Panic+off.Panic != "" || (on.Err == nil) != (off.Err == nil) {
				r.Report(harness.Violation{Sig: "C16:data-family:accept-differs", Summary: fmt.Sprintf("%s: line markers change acceptance: %v / %v %s\n  source: %q", fp.Desc, on.Err, off.Err, firstLine(on.Panic+off.Panic), clip(fp.Src, 500)), Replay: map[string]interface{}{"source": fp.Src, "optimize": opt}})
				continue
			}
			if on.Err != nil {
				continue
			}
			r.Add("nontrivial", 1)
			stripped, n := stripMarkers(on.Out)
			r.Add("markers_checked", int64(n))
			if stripped != off.Out {
				r.Report(harness.Violation{Sig: "C16:data-family:not-transparent", Summary: fmt.Sprintf("%s optimize=%v: removing the marker lines from the -lm output does not give the -lm=false output: %s\n  source: %q", fp.Desc, opt, firstDiff(stripped, off.Out), clip(fp.Src, 500)), Replay: map[string]interface{}{"source": fp.Src, "optimize": opt, "output": on.Out, "output_without_markers": off.Out}})
				continue
			}
			for _, l := range strings.Split(on.Out, "\n") {
				if m := markerRe.FindStringSubmatch(l); m != nil {
					var ln int
					fmt.Sscan(m[1], &ln)
					if m[2] != "data.pory" || ln < 1 || ln > nLines {
						r.Report(harness.Violation{Sig: "C16:data-family:marker-range", Summary: fmt.Sprintf("%s: marker %q does not name the input file and a line in 1..%d", fp.Desc, l, nLines), Replay: map[string]interface{}{"source": fp.Src, "optimize": opt, "output": on.Out}})
						break
					}
				}
			}
		}
	})
	// the size dimension: constructs after K lines, for every K <= 300 and around every power of two up to 2^17
	var ks []int
	for k := 0; k <= 300; k++ {
		ks = append(ks, k)
	}
	maxPow := 17
	if tier == "thorough" {
		maxPow = 20
		for k := 301; k <= 3000; k++ {
			ks = append(ks, k)
		}
	}
	for p := 9; p <= maxPow; p++ {
		ks = append(ks, 1<<p-1, 1<<p, 1<<p+1)
	}
	farDone := r.Parallel(uint64(len(ks)), func(w int, idx uint64) {
		k := ks[idx]
		src := strings.Repeat("\n", k) + "script S {\n\tcmdA(1)\n\tif (flag(F)) {\n\t\tcmdB\n\t}\n}\nraw `\nrawx\n`\ntext T {\n\t\"tt\"\n}\n"
		// [first, last] line of the construct each output line belongs to
		want := map[string][2]int{"\tcmdA 1": {k + 2, k + 2}, "\tgoto_if_set F, S_1": {k + 3, k + 3}, "\tcmdB": {k + 4, k + 4}, "rawx": {k + 8, k + 8}, "\t.string \"tt$\"": {k + 10, k + 12}}
		on := comp.Opts{Optimize: false, LineMarkers: true, Path: "far.pory"}
		res := comp.Compile(src, on)
		r.Add("evaluations", 1)
		r.Add("nontrivial", 1)
		r.Add("far_line_programs", 1)
		if res.Err != nil || res.Panic != "" {
			r.Report(harness.Violation{Sig: "C16:far:rejected", Summary: fmt.Sprintf("program after %d blank lines rejected: %v", k, res.Err), Replay: map[string]interface{}{"blank_lines": k}})
			return
		}
		lines := strings.Split(res.Out, "\n")
		found := 0
		for i, l := range lines {
			m := markerRe.FindStringSubmatch(l)
			if m == nil || i+1 >= len(lines) {
				continue
			}
			if wl, ok := want[lines[i+1]]; ok {
				found++
				var ln int
				fmt.Sscan(m[1], &ln)
				if ln < wl[0] || ln > wl[1] {
					r.Report(harness.Violation{Sig: "C16:far:wrong-line", Summary: fmt.Sprintf("after %d blank lines: marker %q precedes %q, which is written on lines %d..%d", k, l, lines[i+1], wl[0], wl[1]), Replay: map[string]interface{}{"blank_lines": k, "output": clip(res.Out, 2000)}})
				}
			}
		}
		if found != len(want) {
			r.Report(harness.Violation{Sig: "C16:far:markers-missing", Summary: fmt.Sprintf("after %d blank lines: %d of %d expected marker positions found", k, found, len(want)), Replay: map[string]interface{}{"blank_lines": k, "output": clip(res.Out, 2000)}})
		}
	})
	if !farDone {
		r.NotExhaustive("far line programs not completed")
	}
	if n := r.Get("markers_before_unknown_lines"); n > 0 {
		r.NotExhaustive(fmt.Sprintf("%d markers precede output lines the corpus has no construct for", n))
		fmt.Printf("HARNESS-NOTE: property=C16 %d markers precede output lines the corpus does not map to a construct\n", n)
	}
	r.Set("max_layout_insertions", maxIns)
	r.Set("corpus_programs", len(c16Corpus))
	r.Assume("'the line on which the construct was written' is read as any line of the construct's source extent: the command, the label, the operand test incl. its comparison, the switch header, the case, the map-script entry head, the step / item, the whole text/movement/mart statement for the marker at its label, the enclosing command for hoisted text and moves() data; a raw line's own source line; in addition the marker in front of the first line of a multi-line text must not name a line after the one its first part is written on (the following lines of the text are counted from it)",
		"string literals and raw blocks are single tokens (their inner layout is fixed)")
	return r.Finish(r.Get("evaluations"), r.Get("nontrivial"),
		"11 corpus programs covering every marker-emitting construct with unique names (incl. raw blocks whose lines hold a lone carriage return, a CRLF line end and a multi-byte character) x {default, one token per line, all on one line, the first two with Windows line ends} + every layout obtained from the default by inserting <= k extras (line break, blank line, a '#' comment shaped like a preprocessor line marker, '//' comment line) at any token gaps; each layout compiled with lm on / off / on without a path; plus transparency and marker range over every program of the control-flow families (C01 / C03 / C04 bounds: all shapes, dead-label, sequence and scaled programs) and of the data families (C06 hoisting files, C08 mapscripts statements, file-level programs, reduced bounds) with optimize on and off; plus one program placed after K blank lines for every K <= 300 (thorough 3000) and around every power of two up to 2^17 (thorough 2^20); the marker before the first line of a multi-part text and before a multiplied step names no line after the one on which that text / the step's name begins; non-trivial = the source has >= 2 lines")
}

func tagKind(tag string) string { return strings.TrimRight(tag, "0123456789") }

// rawIndex: index of the raw line that follows marker i, counted from the start of the raw block.
func rawIndex(lines []string, i int) int {
	// walk back over (marker, rawline) pairs to the first raw line
	idx := 0
	j := i - 2
	for j >= 0 && markerRe.MatchString(lines[j]) && (strings.HasPrefix(lines[j+1], "rawl") || lines[j+1] == "") {
		idx++
		j -= 2
	}
	return idx
}

func rawContext(lines []string, i int) bool {
	// an empty raw line: neighbours are raw lines with markers
	return i >= 2 && markerRe.MatchString(lines[i-2]) && strings.HasPrefix(lines[i-1], "rawl")
}
