package checks

import (
	"bufio"
	"encoding/json"
	"fmt"
	"os"
	"os/exec"
	"path/filepath"
	"reflect"
	"regexp"
	"strconv"
	"strings"
	"sync"
	"time"

	"github.com/huderlem/poryscript/parser"

	"pmc/internal/comp"
	"pmc/internal/dict"
	"pmc/internal/harness"
	"pmc/internal/instr"
	"pmc/internal/model"
)

// C17 — compilation is deterministic and independent of unrelated statements.
// (1) schedules over instrumented map iterations, (2) histories of
// compilations in one process, (3) context independence.

func init() { register(&Check{ID: "C17", Run: runC17}) }

// SchedCase is one input of the schedule exploration.
type SchedCase struct {
	Name string
	Src  string
	Opts comp.Opts
}

const c17ThreeFonts = `{"defaultFontId":"fa","fonts":{"fa":{"widths":{"default":2},"maxLineLength":20,"numLines":2},"fb":{"widths":{"default":3},"maxLineLength":30,"numLines":2},"fc":{"widths":{"default":1},"maxLineLength":10,"numLines":3}}}`

// SchedCorpus reaches every instrumented site: scripts with many chunks
// (optimize on/off), label clashes, format() with an unknown font against a
// 2- and a 3-font config, plus the small engine programs.
func SchedCorpus(tier, fontPath3 string) []SchedCase {
	shipped := repoDir() + "/font_config.json"
	var cs []SchedCase
	big := "script S {\n\tif (flag(A) && var(B) == 1 || defeated(C)) {\n\t\ta\n\t} elif (flag(D)) {\n\t\tb\n\t} else {\n\t\tc\n\t}\n\twhile (var(E) < 3) {\n\t\tif (flag(F)) {\n\t\t\tbreak\n\t\t}\n\t\tswitch (var(G)) {\n\t\t\tcase 1:\n\t\t\t\td\n\t\t\tcase 2:\n\t\t\tdefault:\n\t\t\t\te\n\t\t}\n\t}\n\tdo {\n\t\tmsgbox(\"hi\")\n\t} while (flag(H))\n\tL1:\n\tf\n}\n"
	for _, opt := range []bool{true, false} {
		cs = append(cs, SchedCase{fmt.Sprintf("many-chunks optimize=%v", opt), big, comp.Opts{Optimize: opt, LineMarkers: true, Path: "f.pory"}})
		cs = append(cs, SchedCase{fmt.Sprintf("label-clash optimize=%v", opt), strings.Replace(big, "L1:", "S_3:", 1), comp.Opts{Optimize: opt}})
		cs = append(cs, SchedCase{fmt.Sprintf("text-label-clash optimize=%v", opt), strings.Replace(big, "L1:", "S_Text_0:", 1), comp.Opts{Optimize: opt}})
	}
	twoClashes := "script S {\n\tlock\n\tif (flag(A)) {\n\t\tS_1:\n\t\tfoo\n\t} else {\n\t\tS_2:\n\t\tbar\n\t}\n\twhile (flag(B)) {\n\t\tS_Text_0:\n\t\tmsgbox(\"t\")\n\t}\n\tS_4:\n\trelease\n}\n"
	for _, opt := range []bool{true, false} {
		cs = append(cs, SchedCase{fmt.Sprintf("several label clashes in different chunks optimize=%v", opt), twoClashes, comp.Opts{Optimize: opt}})
	}
	unknown := "text T {\n\tformat(\"some text to format\", \"nofont\")\n}\n"
	cs = append(cs, SchedCase{"unknown font, shipped 2-font config", unknown, comp.Opts{FontPath: shipped}})
	cs = append(cs, SchedCase{"unknown font, 3-font config", unknown, comp.Opts{FontPath: fontPath3}})
	cs = append(cs, SchedCase{"unknown default font, 3-font config", "script S {\n\tmsgbox(format(\"x y z\"))\n}\n", comp.Opts{FontPath: fontPath3, FontID: "zz"}})
	cs = append(cs, SchedCase{"known font, 3-font config", "text T {\n\tformat(\"some text to format that is long\", \"fb\")\n}\n", comp.Opts{FontPath: fontPath3}})
	// small engine programs
	fam := c01Families()[0]
	maxN := 2
	if tier == "thorough" {
		maxN = 3
	}
	for n := 1; n <= maxN; n++ {
		total := fam.Count(n)
		for i := uint64(0); i < total; i++ {
			body := fam.Unrank(n, i)
			sl := fam.Assign(body, "")
			for _, g := range sl.Gotos {
				g.Name = "EXT"
			}
			src := model.Print([]*model.Script{{Name: "S", Body: body}})
			for _, opt := range []bool{true, false} {
				cs = append(cs, SchedCase{fmt.Sprintf("general n=%d idx=%d optimize=%v", n, i, opt), src, comp.Opts{Optimize: opt}})
			}
		}
	}
	return cs
}

// ---------------------------------------------------------------------------
// Histories.

type c17Action struct {
	Input  int
	Opt    bool
	Font   int
	Sw     int
	Cmd    int
	FontID int // 0: default font of the config file, 1: -f g
	MaxLen int // 0: from the font config, 1: -l 9
}

var c17Inputs = []string{
	"script S {\n\tlock\n\tif (flag(A)) {\n\t\tx\n\t}\n\trelease\n}\n",
	"script S {\n\tmsgbox(\"one\")\n\tmsgbox(\"two\")\n\tmsgbox(\"one\")\n}\nscript S2 {\n\tmsgbox(\"two\")\n}\n",
	"script S {\n\tapplymovement(1, moves(a b))\n\tapplymovement(2, moves(a * 2))\n}\nmovement M {\n\tc\n}\n",
	"text T {\n\tformat(\"aaa bbb ccc ddd eee fff ggg\")\n}\n",
	"script S {\n\tporyswitch(V) {\n\t\tA: msgbox(\"a\")\n\t\t_: msgbox(\"b\")\n\t}\n}\ntext T {\n\tporyswitch(V) {\n\t\tA: \"ta\"\n\t\t_: ascii\"tb\"\n\t}\n}\n",
	"script S {\n\tif (av(1) == 2) {\n\t\tx\n\t}\n\tswitch (av(VAR_Q, 3)) {\n\t\tcase 1:\n\t\t\ty\n\t}\n}\n",
	"script S {\n\tif (flag(A) {\n}\n",
	"script S {\n\tif (flag(A)) {\n\t\tx\n\t}\n\tS_1:\n}\n",
	"const K = 4\nscript S {\n\tx(K)\n\twhile (var(V) < K) {\n\t\tbreak\n\t}\n}\nmart Mt {\n\tI1\n}\nmapscripts Map {\n\tT1 {\n\t\tmsgbox(\"m\")\n\t}\n}\n",
	// not valid UTF-8 (a stray Latin-1 byte inside a string and inside a raw block): the lexer gives up by panicking, the host
	// recovers - whatever the compilation was doing at that moment must not show in the next one
	"script S {\n\tmsgbox(\"Caf\xe9 is open\")\n}\nraw `\nr\xe9\n`\n",
}

const c17FontA = `{"defaultFontId":"f","fonts":{"f":{"widths":{"default":2," ":1},"maxLineLength":14,"numLines":2,"cursorOverlapWidth":0},"g":{"widths":{"default":1," ":1},"maxLineLength":12,"numLines":3,"cursorOverlapWidth":1}}}`
const c17FontB = `{"defaultFontId":"f","fonts":{"f":{"widths":{"default":3," ":2},"maxLineLength":30,"numLines":3,"cursorOverlapWidth":2},"g":{"widths":{"default":4," ":1},"maxLineLength":40,"numLines":2,"cursorOverlapWidth":0}}}`

type c17Env struct {
	fonts []string
	sws   []map[string]string
	cmds  []parser.CommandConfig
}

// c17WriteFonts writes the two font files once (parent process only: workers only read them).
func c17WriteFonts(dir string) {
	os.WriteFile(filepath.Join(dir, "fa.json"), []byte(c17FontA), 0o644)
	os.WriteFile(filepath.Join(dir, "fb.json"), []byte(c17FontB), 0o644)
}

func c17NewEnv(dir string) *c17Env {
	fa, fb := filepath.Join(dir, "fa.json"), filepath.Join(dir, "fb.json")
	return &c17Env{
		fonts: []string{fa, fb},
		sws:   []map[string]string{{"V": "A"}, {"V": "B"}},
		cmds: []parser.CommandConfig{
			{AutoVarCommands: map[string]parser.AutoVarCommand{"av": {VarName: "VAR_RESULT"}}},
			{AutoVarCommands: map[string]parser.AutoVarCommand{"av": {VarNameArgPosition: comp.IntPtr(0)}}},
		},
	}
}

func (e *c17Env) run(a c17Action) string {
	res := comp.Compile(c17Inputs[a.Input], comp.Opts{Optimize: a.Opt, LineMarkers: true, Path: c17Paths[a.Font%len(c17Paths)], FontPath: e.fonts[a.Font], FontID: []string{"", "g"}[a.FontID], MaxLen: []int{0, 9}[a.MaxLen], Switches: e.sws[a.Sw], Cmd: e.cmds[a.Cmd]})
	switch {
	case res.Panic != "":
		return "PANIC " + firstLine(res.Panic)
	case res.Err != nil:
		return "ERROR " + res.Err.Error()
	}
	return res.Out
}

// c17Actions: level 0 = every combination (576), 1 = reduced (configurations varied together, 72),
// 2 = tiny (two opposite configurations per input, 18).
func c17Actions(level int) []c17Action {
	reduced := level >= 1
	var as []c17Action
	for i := range c17Inputs {
		for _, opt := range []bool{true, false} {
			for f := 0; f < 2; f++ {
				for s := 0; s < 2; s++ {
					for c := 0; c < 2; c++ {
						if reduced && !((f == s) && (s == c)) {
							continue
						}
						for fid := 0; fid < 2; fid++ {
							for ml := 0; ml < 2; ml++ {
								if reduced && fid != ml {
									continue
								}
								if level >= 2 && !(opt == (f == 1) && f == fid) {
									continue
								}
								as = append(as, c17Action{i, opt, f, s, c, fid, ml})
							}
						}
					}
				}
			}
		}
	}
	return as
}

// C17Worker: pmc c17worker baseline <dir> <i>   -> prints the result of action i as the first action of a fresh process
//
//	pmc c17worker hist <dir> <depth> <reduced> <lo> <hi> -> enumerates histories whose first action index is in [lo,hi)
func C17Worker(args []string) {
	w := bufio.NewWriter(os.Stdout)
	defer w.Flush()
	switch args[0] {
	case "baseline":
		env := c17NewEnv(args[1])
		i, _ := strconv.Atoi(args[2])
		all := c17Actions(0)
		b, _ := json.Marshal(env.run(all[i]))
		fmt.Fprintf(w, "%s\n", b)
	case "hist":
		env := c17NewEnv(args[1])
		depth, _ := strconv.Atoi(args[2])
		level, _ := strconv.Atoi(args[3])
		lo, _ := strconv.Atoi(args[4])
		hi, _ := strconv.Atoi(args[5])
		var base map[string]string
		bb, _ := os.ReadFile(filepath.Join(args[1], "baseline.json"))
		json.Unmarshal(bb, &base)
		acts := c17Actions(level)
		cmdCopy := fmt.Sprintf("%#v", derefCmd(env.cmds))
		swCopy := fmt.Sprintf("%v", env.sws)
		var runs, hists, viol int64
		seq := make([]int, depth)
		var rec func(d int)
		rec = func(d int) {
			if d == depth {
				hists++
				return
			}
			for i := range acts {
				if d == 0 && (i < lo || i >= hi) {
					continue
				}
				seq[d] = i
				got := env.run(acts[i])
				runs++
				if want := base[fmt.Sprint(acts[i])]; got != want && viol < 5 {
					viol++
					h := make([]c17Action, d+1)
					for k := 0; k <= d; k++ {
						h[k] = acts[seq[k]]
					}
					b, _ := json.Marshal(map[string]interface{}{"history": h, "want": want, "got": got})
					fmt.Fprintf(w, "V %s\n", b)
				}
				rec(d + 1)
			}
		}
		rec(0)
		if fmt.Sprintf("%#v", derefCmd(env.cmds)) != cmdCopy || fmt.Sprintf("%v", env.sws) != swCopy {
			fmt.Fprintf(w, "V %s\n", `{"history":[],"want":"shared maps unmodified","got":"the shared command config / switches maps were modified"}`)
		}
		fmt.Fprintf(w, "S %d %d\n", runs, hists)
	}
}

func derefCmd(cs []parser.CommandConfig) []map[string]string {
	var out []map[string]string
	for _, c := range cs {
		m := map[string]string{}
		for k, v := range c.AutoVarCommands {
			p := "nil"
			if v.VarNameArgPosition != nil {
				p = fmt.Sprint(*v.VarNameArgPosition)
			}
			m[k] = v.VarName + "/" + p
		}
		out = append(out, m)
	}
	return out
}

// ---------------------------------------------------------------------------
// Context independence.

type c17Stmt struct {
	name   string
	src    string
	owned  *regexp.Regexp // labels owned by the statement
	isData bool
}

var c17Stmts = []c17Stmt{
	{"SA", "script SA {\n\tlock\n\tif (flag(A1) && var(A2) > 1) {\n\t\tmsgbox(\"text of SA\")\n\t} else {\n\t\tapplymovement(1, moves(sa1 sa2))\n\t}\n\twhile (flag(A3)) {\n\t\tswitch (var(A4)) {\n\t\t\tcase 1:\n\t\t\t\tbreak\n\t\t\tdefault:\n\t\t\t\tLA:\n\t\t\t\tx\n\t\t}\n\t}\n\tmsgbox(\"shared text\")\n}\n", regexp.MustCompile(`^(SA|SA_\d+|LA)$`), false},
	{"SB", "script(local) SB {\n\tmsgbox(\"shared text\")\n\tapplymovement(2, moves(sa1 sa2))\n\tdo {\n\t\ty\n\t} while (defeated(B1))\n}\n", regexp.MustCompile(`^(SB|SB_\d+)$`), false},
	{"TX", "text TX {\n\t\"shared text\"\n\t\"line two\"\n}\n", regexp.MustCompile(`^TX$`), true},
	{"MV", "movement MV {\n\tsa1\n\tsa2 * 2\n}\n", regexp.MustCompile(`^MV$`), true},
	{"MT", "mart MT {\n\tITEM_1\n\tITEM_2\n}\n", regexp.MustCompile(`^MT$`), true},
	{"MAP", "mapscripts MAP {\n\tT1: SA\n\tT2 {\n\t\tmsgbox(\"text of MAP\")\n\t\tif (flag(M1)) {\n\t\t\tz\n\t\t}\n\t}\n\tT3 [\n\t\tVAR_1, 0: SB\n\t\tVAR_1, 1 {\n\t\t\tmsgbox(\"shared text\")\n\t\t}\n\t]\n}\n", regexp.MustCompile(`^(MAP|MAP_T\d+(_\d+)*)$`), false},
	{"SC", "script SC {\n\tbraillemessage(braille\"shared text\")\n\tmsgbox(custom\"text of SA$\")\n\tmsgbox(\"text of SC\")\n}\n", regexp.MustCompile(`^(SC|SC_\d+)$`), false},
	{"SD", "script SD {\n\tif (flag(D1)) {\n\t\tgoto(SB_2)\n\t}\n\tq\n\tSB_2:\n\tr\n\tSA_3(global):\n\tt\n\tSA_9:\n\tSB_1:\n\tu\n}\n", regexp.MustCompile(`^(SD|SD_\d+|SB_[129]|SA_[39])$`), false},
	// statements whose content is selected by a poryswitch (compiled with CV=A): TP1 takes its A case, TP2 has no A case
	{"TP1", "text TP1 {\n\tporyswitch(CV) {\n\t\tA: \"tp1 a\"\n\t\t_: \"tp1 other\"\n\t}\n}\n", regexp.MustCompile(`^TP1$`), true},
	{"TP2", "text TP2 {\n\tporyswitch(CV) {\n\t\tB: ascii\"tp2 b\"\n\t\t_: \"tp2 other\"\n\t}\n}\n", regexp.MustCompile(`^TP2$`), true},
	{"MP", "movement MP {\n\tmp1\n\tporyswitch(CV) {\n\t\tB: mp_b\n\t\t_: mp_other\n\t}\n}\n", regexp.MustCompile(`^MP$`), true},
	// texts formatted with a font whose config entry has no numLines (the documented default applies to every one of them)
	{"TG1", "text TG1 {\n\tformat(\"aaa bbb ccc ddd\", \"g\")\n}\n", regexp.MustCompile(`^TG1$`), true},
	{"TG2", "text TG2 {\n\tformat(\"eee fff ggg hhh\", \"g\")\n}\n", regexp.MustCompile(`^TG2$`), true},
	{"RAW", "raw `\nRawLabel:\n\t.byte 1\n`\n", nil, true},
	{"CONST", "const UNUSED_K = 77\n", nil, true},
}

var hoistedRe = regexp.MustCompile(`\b[A-Za-z0-9_]+_(Text|Movement)_\d+\b`)

// section extracts the emitted block(s) of statement st: from its first owned
// label up to the next label it does not own, hoisted label names normalised.
func c17Section(out string, st c17Stmt) string {
	lines := strings.Split(out, "\n")
	var sec []string
	in := false
	for i, l := range lines {
		isLabel := !strings.HasPrefix(l, "\t") && strings.HasSuffix(l, ":") && !strings.HasPrefix(l, "#")
		if isLabel {
			name := strings.TrimRight(l, ":")
			if !in && name != st.name {
				// the section starts at the statement's own label (a label of another statement may be named like one of this
				// statement's sub-labels)
			} else if st.owned.MatchString(name) {
				if !in {
					// a mart's .align and a line marker precede the label
					if i > 0 && lines[i-1] == "\t.align 2" {
						sec = append(sec, lines[i-1])
					}
				}
				in = true
			} else if in {
				break
			}
		}
		if in {
			sec = append(sec, l)
		}
	}
	for len(sec) > 0 && (sec[len(sec)-1] == "" || sec[len(sec)-1] == "\t.align 2") {
		sec = sec[:len(sec)-1]
	}
	// A hoisted label is replaced by the data it denotes: numbering and sharing are free, the content is not.
	return hoistedRe.ReplaceAllStringFunc(strings.Join(sec, "\n"), func(label string) string {
		blk, ok := blockAfter(out, label)
		if !ok || len(blk) < 2 {
			return "<hoisted: undefined>"
		}
		var data []string
		for _, l := range blk[1:] {
			if !strings.HasPrefix(l, "# ") {
				data = append(data, strings.TrimSpace(l))
			}
		}
		return "<hoisted: " + strings.Join(data, " | ") + ">"
	})
}

// c17Paths: the input path of an action follows its font-file choice (no extra dimension): two different paths with
// backslashes and one without, so histories compile under changing paths.
var c17Paths = []string{`da\sub\h.pory`, `db\sub\h.pory`, `h.pory`}

// c17CtxFont is the font file of the context compilations: one font without a "default" width, so that glyphs
// missing from the table are 0 wide, and a short line.
var c17CtxFont, c17ScratchDir string

// c17DictStmts: two formatted texts. The first holds every word-like literal of the compiler's own source (the
// sentinels it compares against: "default", "TEST", keywords, ...); the second consists of glyphs the font table
// lacks. Neither may change because the other is in the file, whichever comes first.
func c17DictStmts() []c17Stmt {
	words := dict.Identifiers(dict.Load(repoDir()), 24)
	return []c17Stmt{
		{"FW", "text FW {\n\tformat(\"" + strings.Join(words, " ") + "\")\n}\n", regexp.MustCompile(`^FW$`), true},
		{"FG", "text FG {\n\tformat(\"*** @@@ ### ~~~ ___ *** @@@ ### ~~~ ___ *** @@@ aa ### a ~~~\")\n}\n", regexp.MustCompile(`^FG$`), true},
		// a format() with an explicitly empty font id (accepted: no font, every glyph 0 wide) next to ones that select a font
		{"FE", "text FE {\n\tformat(\"aa ee aa ee aa ee aa ee aa ee aa ee\", \"\")\n}\n", regexp.MustCompile(`^FE$`), true},
	}
}

func c17Context(r *harness.Run, tier string) {
	// (the file lives in the run's scratch directory, which is removed after Finish has re-checked every report)
	c17CtxFont = filepath.Join(c17ScratchDir, "ctxfont.json")
	os.WriteFile(c17CtxFont, []byte(`{"defaultFontId": "f", "fonts": {"f": {"widths": {" ": 1, "a": 1, "e": 2}, "maxLineLength": 12, "numLines": 2, "cursorOverlapWidth": 0}, "g": {"widths": {" ": 10, "default": 10}, "maxLineLength": 40, "cursorOverlapWidth": 0}}}`), 0o644)
	if len(c17Stmts) > 0 && c17Stmts[len(c17Stmts)-1].name != "FE" {
		c17Stmts = append(c17Stmts, c17DictStmts()...)
	}
	maxOthers := 2
	if tier == "thorough" {
		maxOthers = 3
	}
	alone := map[string]map[bool]string{}
	for _, st := range c17Stmts {
		if st.owned == nil {
			continue
		}
		alone[st.name] = map[bool]string{}
		for _, opt := range []bool{true, false} {
			res := comp.Compile(st.src, comp.Opts{Optimize: opt, FontPath: c17CtxFont, Switches: map[string]string{"CV": "A"}})
			if res.Err != nil {
				r.Note("context statement %s rejected alone: %v", st.name, res.Err)
				continue
			}
			alone[st.name][opt] = c17Section(res.Out, st)
		}
	}
	// every ordered selection of <= maxOthers other statements and every position of X among them
	var rec func(x int, others []int)
	eval := func(x int, others []int) {
		for pos := 0; pos <= len(others); pos++ {
			var parts []string
			for i, o := range others {
				if i == pos {
					parts = append(parts, c17Stmts[x].src)
				}
				parts = append(parts, c17Stmts[o].src)
			}
			if pos == len(others) {
				parts = append(parts, c17Stmts[x].src)
			}
			src := strings.Join(parts, "\n")
			for _, opt := range []bool{true, false} {
				res := comp.Compile(src, comp.Opts{Optimize: opt, FontPath: c17CtxFont, Switches: map[string]string{"CV": "A"}})
				r.Add("evaluations", 1)
				r.Add("contexts", 1)
				if len(others) >= 1 {
					r.Add("nontrivial", 1)
				}
				if res.Err != nil || res.Panic != "" {
					r.Report(harness.Violation{Sig: "C17:context:rejected", Summary: fmt.Sprintf("file rejected: %v %s\n  source: %q", res.Err, firstLine(res.Panic), clip(src, 400)), Replay: map[string]interface{}{"source": src}})
					continue
				}
				got := c17Section(res.Out, c17Stmts[x])
				if want := alone[c17Stmts[x].name][opt]; got != want {
					names := []string{}
					for _, o := range others {
						names = append(names, c17Stmts[o].name)
					}
					s2 := src
					r.Report(harness.Violation{Sig: "C17:context:" + c17Stmts[x].name, Summary: fmt.Sprintf("the code emitted for %s depends on its neighbours %v (position %d, optimize=%v): %s", c17Stmts[x].name, names, pos, opt, firstDiff(got, want)),
						Replay: map[string]interface{}{"source": src, "statement": c17Stmts[x].name, "optimize": opt, "alone": want, "in_context": got},
						Recheck: func() bool {
							return c17Section(comp.Compile(s2, comp.Opts{Optimize: opt, FontPath: c17CtxFont, Switches: map[string]string{"CV": "A"}}).Out, c17Stmts[x]) != want
						}})
				}
			}
		}
	}
	rec = func(x int, others []int) {
		eval(x, others)
		if len(others) == maxOthers {
			return
		}
		for o := range c17Stmts {
			if o == x {
				continue
			}
			dup := false
			for _, p := range others {
				dup = dup || p == o
			}
			if !dup {
				rec(x, append(append([]int{}, others...), o))
			}
		}
	}
	for x, st := range c17Stmts {
		if st.owned != nil {
			rec(x, nil)
		}
	}
}

// c17ScaledContext: context independence along the size dimension. Every scaled program (each
// statement template repeated K times, each block kind nested K deep, switches with K cases) is
// compiled alone and next to each of a few large and small neighbour scripts, before and after it.
func c17ScaledContext(r *harness.Run, tier string) {
	xs := scaledPrograms(tier)
	var neighbours []string
	for _, p := range scaledPrograms(tier) {
		for _, want := range []string{"template 1 x 40 ", "template 5 x 40 ", "template 10 x 40 ", "block kind 0 nested 40 ", "block kind 7 nested 40 ", "switch with 100 cases, variant 1", "switch with 5 cases, variant 0", "template 0 x 4 "} {
			if strings.Contains(p.Desc+" ", want) {
				sc := cloneScript(p.Script)
				sc.Name = "SY"
				neighbours = append(neighbours, model.Print([]*model.Script{sc}))
			}
		}
	}
	r.Set("scaled_context_neighbours", len(neighbours))
	owned := regexp.MustCompile(`^(SX|SX_\d+|[LM]\d+)$`)
	st := c17Stmt{name: "SX", owned: owned}
	done := r.Parallel(uint64(len(xs)), func(w int, i uint64) {
		sc := cloneScript(xs[i].Script)
		sc.Name = "SX"
		xsrc := model.Print([]*model.Script{sc})
		for _, opt := range []bool{true, false} {
			res := comp.Compile(xsrc, comp.Opts{Optimize: opt})
			if res.Err != nil || res.Panic != "" {
				continue
			}
			want := c17Section(res.Out, st)
			for ni, nb := range neighbours {
				for pos := 0; pos < 2; pos++ {
					src := nb + "\n" + xsrc
					if pos == 1 {
						src = xsrc + "\n" + nb
					}
					res2 := comp.Compile(src, comp.Opts{Optimize: opt})
					r.Add("evaluations", 1)
					r.Add("nontrivial", 1)
					r.Add("scaled_contexts", 1)
					if res2.Err != nil || res2.Panic != "" {
						r.Report(harness.Violation{Sig: "C17:scaled-context:rejected", Summary: fmt.Sprintf("file rejected: %v %s (%s next to neighbour %d)", res2.Err, firstLine(res2.Panic), xs[i].Desc, ni), Replay: map[string]interface{}{"source": src}})
						continue
					}
					if got := c17Section(res2.Out, st); got != want {
						s2 := src
						r.Report(harness.Violation{Sig: "C17:scaled-context", Summary: fmt.Sprintf("the code emitted for a script (%s) depends on a neighbouring script (neighbour %d, position %d, optimize=%v): %s", xs[i].Desc, ni, pos, opt, firstDiff(got, want)),
							Replay:  map[string]interface{}{"source": src, "statement": "SX", "optimize": opt, "alone": want, "in_context": got},
							Recheck: func() bool { return c17Section(comp.Compile(s2, comp.Opts{Optimize: opt}).Out, st) != want }})
					}
				}
			}
		}
	})
	if !done {
		r.NotExhaustive("scaled context programs not completed")
	}
}

// c17FamilyContext: context independence and repeatability over the control-flow program families: each program is
// compiled twice alone (byte-identical), and next to two neighbour statements sets, before and after them.
func c17FamilyContext(r *harness.Run, tier string) {
	plans, swN := liftPlans(tier)
	owned := regexp.MustCompile(`^(SX|SX_\d+)$`)
	neighbours := []string{
		"script SY {\n\tlock\n\tif (flag(NA)) {\n\t\tmsgbox(\"neighbour text\")\n\t}\n\tNeighbourLabel:\n\twhile (var(NB) < 3) {\n\t\tapplymovement(1, moves(nu nd))\n\t}\n}\n",
		"mapscripts NM {\n\tNT1 {\n\t\tswitch (var(NC)) {\n\t\t\tcase 1:\n\t\t\t\tna\n\t\t\tdefault:\n\t\t\t\tnb\n\t\t}\n\t}\n}\ntext NTx {\n\t\"neighbour\"\n}\nraw `\nNeighbourRaw:\n`\n",
	}
	forEachEngineProgram(r, plans, swN, func(w int, p engineProgram) {
		sc := cloneScript(p.Script)
		sc.Name = "SX"
		user := model.UserLabels([]*model.Script{sc})
		st := c17Stmt{name: "SX", owned: owned}
		if len(user) > 0 {
			alt := []string{"SX", `SX_\d+`}
			for l := range user {
				alt = append(alt, regexp.QuoteMeta(l))
			}
			st.owned = regexp.MustCompile("^(" + strings.Join(alt, "|") + ")$")
		}
		xsrc := model.Print([]*model.Script{sc})
		for _, opt := range []bool{true, false} {
			res := comp.Compile(xsrc, comp.Opts{Optimize: opt})
			if res.Err != nil || res.Panic != "" {
				continue
			}
			r.Add("evaluations", 1)
			r.Add("family_programs_x_optimize", 1)
			if again := comp.Compile(xsrc, comp.Opts{Optimize: opt}); again.Out != res.Out {
				r.Report(harness.Violation{Sig: "C17:family:not-repeatable", Summary: fmt.Sprintf("%s: two compilations of the same input differ: %s", p.Desc, firstDiff(again.Out, res.Out)), Replay: map[string]interface{}{"source": xsrc, "optimize": opt}})
			}
			want := c17Section(res.Out, st)
			for ni, nb := range neighbours {
				for pos := 0; pos < 2; pos++ {
					src := nb + "\n" + xsrc
					if pos == 1 {
						src = xsrc + "\n" + nb
					}
					res2 := comp.Compile(src, comp.Opts{Optimize: opt})
					r.Add("evaluations", 1)
					r.Add("nontrivial", 1)
					r.Add("family_contexts", 1)
					if res2.Err != nil || res2.Panic != "" {
						r.Report(harness.Violation{Sig: "C17:family-context:rejected", Summary: fmt.Sprintf("file rejected: %v %s (%s next to neighbour %d)", res2.Err, firstLine(res2.Panic), p.Desc, ni), Replay: map[string]interface{}{"source": src}})
						continue
					}
					if got := c17Section(res2.Out, st); got != want {
						s2 := src
						r.Report(harness.Violation{Sig: "C17:family-context", Summary: fmt.Sprintf("the code emitted for a script (%s) depends on its neighbours (neighbour %d, position %d, optimize=%v): %s", p.Desc, ni, pos, opt, firstDiff(got, want)),
							Replay:  map[string]interface{}{"source": src, "statement": "SX", "optimize": opt, "alone": want, "in_context": got},
							Recheck: func() bool { return c17Section(comp.Compile(s2, comp.Opts{Optimize: opt}).Out, st) != want }})
					}
				}
			}
		}
	})
}

// ---------------------------------------------------------------------------

func runC17(tier string) int {
	r := harness.NewRun("C17", "model_checking", tier, budget(tier, 55*time.Second, 12*time.Minute))
	r.HangLimit = 10 * time.Minute // a case of its Parallel loops is a whole worker subprocess
	dir, err := os.MkdirTemp("", "pmc-c17-")
	if err != nil {
		fmt.Println("HARNESS-ERROR: cannot create scratch dir")
		return 2
	}
	defer os.RemoveAll(dir)
	c17ScratchDir = dir
	exe, _ := os.Executable()

	// (1) schedules: instrument, build with the overlay, run the explorer.
	font3 := filepath.Join(dir, "font3.json")
	os.WriteFile(font3, []byte(c17ThreeFonts), 0o644)
	var schedWG sync.WaitGroup
	var schedOut []byte
	var schedErr string
	var ires *instr.Result
	schedWG.Add(1)
	go func() {
		defer schedWG.Done()
		var err error
		ires, err = instr.Instrument(repoDir(), filepath.Join(dir, "instr"))
		if err != nil {
			schedErr = "instrumentation failed: " + err.Error()
			return
		}
		bin := filepath.Join(dir, "sched")
		build := exec.Command("go", "build", "-tags", "verifsched", "-overlay", ires.OverlayPath, "-o", bin, "./cmd/sched")
		build.Dir = filepath.Join(harness.Root, "mc")
		if out, err := build.CombinedOutput(); err != nil {
			schedErr = "overlay build failed: " + clip(string(out), 600)
			return
		}
		cmd := exec.Command(bin, tier, font3)
		out, err := cmd.Output()
		if err != nil {
			schedErr = "schedule explorer failed: " + err.Error()
			return
		}
		schedOut = out
	}()

	// (2) histories: baselines from fresh processes, then enumeration in worker processes.
	c17WriteFonts(dir)
	all := c17Actions(0)
	base := map[string]string{}
	var mu sync.Mutex
	r.Parallel(uint64(len(all)), func(w int, i uint64) {
		out, err := exec.Command(exe, "c17worker", "baseline", dir, fmt.Sprint(i)).Output()
		var s string
		if err != nil || json.Unmarshal(out, &s) != nil {
			r.Note("baseline %d failed: %v", i, err)
			return
		}
		mu.Lock()
		base[fmt.Sprint(all[i])] = s
		mu.Unlock()
	})
	bb, _ := json.Marshal(base)
	os.WriteFile(filepath.Join(dir, "baseline.json"), bb, 0o644)
	r.Set("history_actions", len(all))
	type hplan struct {
		depth int
		level int
	}
	plans := []hplan{{2, 0}, {3, 1}}
	if tier == "thorough" {
		plans = []hplan{{2, 0}, {3, 1}, {4, 2}, {5, 2}}
	}
	for _, pl := range plans {
		acts := c17Actions(pl.level)
		red := fmt.Sprint(pl.level)
		r.Parallel(uint64(len(acts)), func(w int, i uint64) {
			out, err := exec.Command(exe, "c17worker", "hist", dir, fmt.Sprint(pl.depth), red, fmt.Sprint(i), fmt.Sprint(i+1)).Output()
			if err != nil {
				r.Note("history worker failed: %v", err)
				r.NotExhaustive("a history worker failed")
				return
			}
			for _, l := range strings.Split(string(out), "\n") {
				switch {
				case strings.HasPrefix(l, "V "):
					var v struct {
						History   []c17Action
						Want, Got string
					}
					json.Unmarshal([]byte(l[2:]), &v)
					last := "shared maps"
					if len(v.History) > 0 {
						last = fmt.Sprint(v.History[len(v.History)-1])
					}
					r.Report(harness.Violation{Sig: "C17:history:input" + last, Summary: fmt.Sprintf("after the history %v the result differs from the same compilation in a fresh process: %s", v.History, firstDiff(v.Got, v.Want)),
						Replay: map[string]interface{}{"history": v.History, "inputs": c17Inputs, "fresh_process_result": v.Want, "result": v.Got}})
				case strings.HasPrefix(l, "S "):
					var runs, hists int64
					fmt.Sscanf(l[2:], "%d %d", &runs, &hists)
					r.Add("evaluations", runs)
					r.Add("states", runs)
					r.Add("transitions", runs)
					r.Add("histories", hists)
					r.Add("nontrivial", runs-int64(1))
				}
			}
		})
		r.Set(fmt.Sprintf("history_depth_%d_actions", pl.depth), len(acts))
	}

	// (3) context independence
	c17Context(r, tier)
	c17ScaledContext(r, tier)
	c17FamilyContext(r, tier)
	c17ManyDataStatements(r, tier)
	c17ManyScripts(r, tier)
	pairDataFiles(r, "C17")

	schedWG.Wait()
	if schedErr != "" {
		fmt.Println("HARNESS-ERROR: " + schedErr)
		r.NotExhaustive("schedule exploration did not run: " + schedErr)
	} else {
		var rep struct {
			Cases, Executions int
			ChoicePoints      int            `json:"choice_points_met"`
			Deviating         int            `json:"executions_with_deviation"`
			MaxPoints         int            `json:"max_choice_points_per_input"`
			SitesMet          map[string]int `json:"sites_met"`
			Bound             int            `json:"deviation_bound"`
			ReplayAgree       int            `json:"replay_twice_agreements"`
			Error             string         `json:"harness_error"`
			Samples           []interface{}  `json:"samples"`
			Violations        []struct {
				Case, Source string
				Schedule     []int
				Baseline     string `json:"identity_result"`
				Got          string `json:"result"`
			} `json:"violations"`
		}
		if err := json.Unmarshal(schedOut, &rep); err != nil {
			fmt.Println("HARNESS-ERROR: cannot read the schedule explorer's report")
			r.NotExhaustive("schedule report unreadable")
		} else {
			if rep.Error != "" {
				fmt.Println("HARNESS-ERROR: " + rep.Error)
				r.NotExhaustive("schedule exploration aborted: " + rep.Error)
			}
			r.Add("evaluations", int64(rep.Executions))
			r.Add("states", int64(rep.Executions))
			r.Add("transitions", int64(rep.Executions))
			r.Add("nontrivial", int64(rep.Deviating))
			r.Set("schedule_cases", rep.Cases)
			r.Set("schedule_executions", rep.Executions)
			r.Set("schedule_choice_points_met", rep.ChoicePoints)
			r.Set("schedule_max_choice_points_per_input", rep.MaxPoints)
			r.Set("schedule_deviation_bound", rep.Bound)
			r.Set("schedule_replay_twice_agreements", rep.ReplayAgree)
			r.Set("instrumented_sites", ires.Sites)
			r.Set("uncontrolled_sites", ires.Uncontrolled)
			r.Set("instrumented_sites_met", rep.SitesMet)
			if len(rep.SitesMet) < len(ires.Sites) {
				r.NotExhaustive(fmt.Sprintf("only %d of %d instrumented sites were reached by the corpus", len(rep.SitesMet), len(ires.Sites)))
			}
			for _, s := range rep.Samples {
				r.Sample(s)
			}
			for _, v := range rep.Violations {
				r.Report(harness.Violation{Sig: "C17:schedule:" + firstWords(v.Case, 2), Summary: fmt.Sprintf("case %q: map iteration schedule %v changes the result: %s", v.Case, v.Schedule, firstDiff(v.Got, v.Baseline)),
					Replay: map[string]interface{}{"case": v.Case, "source": v.Source, "schedule": v.Schedule, "identity_result": v.Baseline, "result": v.Got, "note": "schedule = index into the permutation family at each dynamic range-over-map occurrence"}})
			}
		}
	}
	r.Set("traces_validated_against_impl", r.Get("transitions"))
	_ = reflect.DeepEqual
	r.Assume("the only sources of nondeterminism of the compiler are Go's map iteration order and process history (no goroutines, clocks or randomness): every range-over-map of the non-test code is found by go/types and routed through the scheduler; loops that modify the ranged map would be reported as uncontrolled",
		"'fresh process' baselines are computed by subprocesses that run exactly one compilation",
		"context independence compares a statement's emitted section with every hoisted text / movement label replaced by the data it denotes (numbering and sharing are free, content is not)")
	return r.Finish(r.Get("evaluations"), r.Get("nontrivial"),
		"(1) schedules: for every corpus input (many-chunk scripts, label clashes, unknown-font errors against 2- and 3-font configs, all small 'general' programs, optimize on/off) every execution with <= d deviating map-iteration choice points (all n! orders for n <= 4, else reverse, rotations, adjacent transpositions), each run twice; (2) histories: every sequence of <= k compilations (k = 2 over all 640 actions, 3 over 80, thorough: 4 and 5 over 20) over 10 inputs (one of them not valid UTF-8: the lexer panics and the host recovers) x optimize x 2 font files x default font id {config default, -f} x default line length {config, -l} x 2 switch assignments x 2 command configs sharing the maps, each result compared with the same compilation as first action of a fresh process; (3) every top-level statement of an 18-statement family (scripts, texts, movements, marts, mapscripts, raw, const; texts and a movement whose content a poryswitch selects; two texts formatted with a font that has no numLines entry; statements named by the dictionary) among every ordered selection of <= m other statements at every position; (4) files with N texts, N movements, N marts and N scripts for every N up to the bound in the coverage in 4 interleavings: every data block is the block of the statement compiled alone; (5) for each of 31 statement templates a file of N scripts holding it: the output is the outputs of the scripts compiled alone, in order; (6) pair-data files: every ordered pair of 24 inline arguments with near-equal dedupe keys in two scripts, each label holding what the argument holds when its script is compiled alone and shared only between equal contents; states/transitions = executions; non-trivial = a deviating schedule, a history of length >= 2 or a context with a neighbour")
}

// c17ManyDataStatements: files with N texts, N movements, N marts and N small scripts (all different, some texts and
// step lists shared with inline data of the scripts), interleaved, for N = 1..maxN in 4 interleavings: the block of
// every data statement is the block it gets when compiled alone (a per-file table or counter that fills up, or state
// that a statement of one kind leaves for the next of another kind, shows at some N).
func c17ManyDataStatements(r *harness.Run, tier string) {
	maxN := 120
	if tier == "thorough" {
		maxN = 400
	}
	stmt := func(kind, i int) (src, label string) {
		switch kind {
		case 0:
			return fmt.Sprintf("text TXT_%d {\n\t\"text number %d\"\n\t\"second line %d\"\n}\n", i, i, i%7), fmt.Sprintf("TXT_%d", i)
		case 1:
			return fmt.Sprintf("movement MOV_%d {\n\tstep_a%d\n\tstep_b * %d\n}\n", i, i, i%5+1), fmt.Sprintf("MOV_%d", i)
		case 2:
			return fmt.Sprintf("mart MRT_%d {\n\tITEM_%d\n\tITEM_B%d\n}\n", i, i, i%3), fmt.Sprintf("MRT_%d", i)
		default:
			return fmt.Sprintf("script SCR_%d {\n\tmsgbox(\"text number %d\")\n\tapplymovement(%d, moves(step_a%d step_b))\n}\n", i, i, i, i), ""
		}
	}
	alone := map[string]string{}
	for i := 0; i < maxN; i++ {
		for kind := 0; kind < 3; kind++ {
			src, label := stmt(kind, i)
			res := comp.Compile(src, comp.Opts{Optimize: true})
			b, _ := blockAfter(res.Out, label)
			alone[label] = strings.Join(b, "\n")
		}
	}
	done := r.Parallel(uint64(maxN)*4, func(w int, idx uint64) {
		n, order := int(idx/4)+1, int(idx%4)
		var parts []string
		var labels []string
		add := func(kind, i int) {
			src, label := stmt(kind, i)
			parts = append(parts, src)
			if label != "" {
				labels = append(labels, label)
			}
		}
		switch order {
		case 0: // kind by kind
			for kind := 0; kind < 4; kind++ {
				for i := 0; i < n; i++ {
					add(kind, i)
				}
			}
		case 1: // round robin
			for i := 0; i < n; i++ {
				for kind := 0; kind < 4; kind++ {
					add(kind, i)
				}
			}
		case 2: // round robin, scripts first, indices descending
			for i := n - 1; i >= 0; i-- {
				for kind := 3; kind >= 0; kind-- {
					add(kind, i)
				}
			}
		default: // data statements only
			for i := 0; i < n; i++ {
				for kind := 0; kind < 3; kind++ {
					add(kind, i)
				}
			}
		}
		src := strings.Join(parts, "\n")
		res := comp.Compile(src, comp.Opts{Optimize: true})
		r.Add("evaluations", 1)
		r.Add("nontrivial", 1)
		r.Add("many_statement_files", 1)
		if res.Err != nil || res.Panic != "" {
			r.Report(harness.Violation{Sig: "C17:many-statements:rejected", Summary: fmt.Sprintf("file with %d statements of each kind (order %d) rejected: %v %s", n, order, res.Err, firstLine(res.Panic)), Replay: map[string]interface{}{"source": src}})
			return
		}
		for _, l := range labels {
			b, ok := blockAfter(res.Out, l)
			if !ok || strings.Join(b, "\n") != alone[l] {
				r.Report(harness.Violation{Sig: "C17:many-statements:" + l[:3], Summary: fmt.Sprintf("file with %d statements of each kind (order %d): the block of %s is %q, compiled alone it is %q", n, order, l, strings.Join(b, "\n"), alone[l]), Replay: map[string]interface{}{"source": src, "statement": l, "alone": alone[l], "in_context": strings.Join(b, "\n")}})
				return
			}
		}
	})
	if !done {
		r.NotExhaustive("many-statement files not completed")
	}
	r.Set("many_statement_files_max_n", maxN)
}

// c17ManyScripts: for every statement template (and two more whose conditions hold a parenthesised and a negated group), a
// file of N scripts that each consist of that statement between two commands. The file compiles to the outputs of the
// scripts compiled alone, one after the other: anything that a statement leaves behind for the rest of the file (a counter
// that is not wound back, a table that fills up) shows at the script where it reaches its limit.
func c17ManyScripts(r *harness.Run, tier string) {
	n := 320
	if tier == "thorough" {
		n = 1200
	}
	ts := seqTemplates()
	group := func(neg bool) func(k int) model.Stmt {
		return func(k int) model.Stmt {
			g := &model.Cond{Kind: model.COr, L: mflag(fmt.Sprintf("GA%d", k)), R: mflag(fmt.Sprintf("GB%d", k))}
			var left *model.Cond
			if neg {
				left = &model.Cond{Kind: model.CNot, L: g}
			} else {
				left = &model.Cond{Kind: model.CParen, L: g}
			}
			return model.Stmt{Kind: model.SIf, Arms: []model.Arm{{Cond: &model.Cond{Kind: model.CAnd, L: left, R: mflag(fmt.Sprintf("GC%d", k))}, Body: []model.Stmt{mcmd(fmt.Sprintf("g%d", k))}}}}
		}
	}
	ts = append(ts, group(false), group(true))
	done := r.Parallel(uint64(len(ts))*2, func(w int, idx uint64) {
		ti, opt := int(idx/2), idx%2 == 0
		var parts, alone []string
		for i := 0; i < n; i++ {
			sc := &model.Script{Name: fmt.Sprintf("SC_%d", i), Body: []model.Stmt{mcmd("a"), ts[ti](i), mcmd("z")}}
			src := model.Print([]*model.Script{sc})
			parts = append(parts, src)
			res := comp.Compile(src, comp.Opts{Optimize: opt})
			if res.Err != nil || res.Panic != "" {
				r.Report(harness.Violation{Sig: "C17:many-scripts:rejected-alone", Summary: fmt.Sprintf("template %d script %d rejected alone: %v %s", ti, i, res.Err, firstLine(res.Panic)), Replay: map[string]interface{}{"source": src}})
				return
			}
			alone = append(alone, res.Out)
		}
		src := strings.Join(parts, "\n")
		res := comp.Compile(src, comp.Opts{Optimize: opt})
		r.Add("evaluations", 1)
		r.Add("nontrivial", 1)
		r.Add("many_script_files", 1)
		want := strings.Join(alone, "\n")
		if res.Err != nil || res.Panic != "" || res.Out != want {
			r.Report(harness.Violation{Sig: "C17:many-scripts", Summary: fmt.Sprintf("file of %d scripts that each hold statement template %d (optimize=%v): error %v %s; compared with the scripts compiled alone: %s", n, ti, opt, res.Err, firstLine(res.Panic), firstDiff(res.Out, want)), Replay: map[string]interface{}{"source": src, "optimize": opt, "template": ti, "scripts": n}})
		}
	})
	if !done {
		r.NotExhaustive("many-script files not completed")
	}
	r.Set("many_script_files_scripts", n)
}
