package checks

import (
	"bufio"
	"encoding/json"
	"fmt"
	"os"
	"os/exec"
	"regexp"
	"sort"
	"strconv"
	"strings"
	"sync"
	"time"
	"unicode/utf8"

	"github.com/huderlem/poryscript/parser"

	"pmc/internal/comp"
	"pmc/internal/dict"
	"pmc/internal/harness"
	"pmc/internal/model"
)

// C18 — every input is answered promptly with output or a located error, never a crash.
// Token-sequence, deviation and character-string enumeration (E7) in worker
// subprocesses under a watchdog.

func init() { register(&Check{ID: "C18", Run: runC18}) }

var c18Lexemes = []string{
	"script", "raw", "text", "movement", "mart", "mapscripts", "format", "var", "flag", "defeated", "TRUE", "FALSE", "if", "else", "elif", "do", "while", "break", "continue", "switch", "case", "default", "global", "local", "poryswitch", "const", "value", "moves",
	"abc", "specialvar", "é1", "_", "5", "-1", "0x1F", "\"s t\"", "ascii\"x\"", "`r w`",
	"=", "==", "!=", "<", ">=", "&&", "||", "!", "*", ",", ":", "(", ")", "{", "}", "[", "]", "+", "€", "٣", "-٣", "%",
}

var c18Prefixes = []string{
	"", "script S {", "script S { if (", "script S { if (flag(A)) {", "script S { if (flag(A) &&", "script S { while (", "script S { do {", "script S { do { x } while (",
	"script S { switch (var(V)) {", "script S { switch (var(V)) { case 1:", "script S { x(", "script S { x(moves(", "script S { x(format(", "script S { poryswitch(V) {", "script S { poryswitch(V) { A {",
	"mapscripts M {", "mapscripts M { T [", "mapscripts M { T [ VAR, 1", "text T {", "text T { format(", "text T { format(\"a\",", "text T { poryswitch(V) {", "movement M {", "movement M { poryswitch(V) {", "mart M {", "mart M { poryswitch(V) { A:", "const C =", "script(", "script S { L(",
}

var c18Suffixes = []string{"", " ) { y } }", " }"}

var c18Chars = []string{"a", "é", "٣", "€", "�", "\x00", "\"", "`", "\r", "\n", " ", "{", "(", "0", "-", "#", "/", "\\", "=", "&", "|", "*", ":", "x"}

// Seeds: well-formed programs that together use every production, as token lists.
var c18Seeds = []string{
	`script S { lock msgbox ( "hi" , MSGBOX_YESNO ) if ( flag ( A ) && ! var ( B ) || defeated ( T ) == FALSE ) { x } elif ( var ( V ) >= value ( 0x4000 ) ) { y } else { z } release end }`,
	`script ( local ) S { while ( var ( V ) != 1 ) { a if ( flag ( F ) ) { break } continue } do { b } while ( ! ( flag ( A ) || flag ( B ) ) ) while { c break } }`,
	`script S { switch ( var ( V ) ) { case 0 : a case 1 : case 2 : b break default : c } L1 : goto ( L1 ) L2 ( global ) : return }`,
	`script S { if ( specialvar ( VAR_RESULT , Foo ) == 3 ) { a } switch ( specialvar ( VAR_X , Bar ) ) { case 1 : b } }`,
	`text ( global ) T { "a" "b" } text U { format ( "hello world" , "1_latin_rse" , 100 ) } text W { format ( ascii"x y" , numLines = 3 , maxLineLength = 50 ) }`,
	`movement ( local ) M { walk_left * 3 , walk_right step_end } mart Mt { ITEM_A ITEM_NONE ITEM_B }`,
	`mapscripts ( global ) Map { TYPE_A : Scr TYPE_B { lock release } TYPE_C [ VAR_A , 1 : Scr VAR_B + 1 , 2 { x } ] }`,
	`raw ` + "`r w`" + ` const K = 5 const J = K + 1 script S { x ( K , J ) applymovement ( 1 , moves ( a * 2 , b ) ) msgbox ( format ( "t" ) ) }`,
	`script S { poryswitch ( V ) { A : x B { y z } _ : w } } text T { poryswitch ( V ) { A : "a" _ { "b" } } } movement M { poryswitch ( V ) { A : up _ { down * 2 } } } mart Mt { poryswitch ( V ) { A : I1 _ { I2 I3 } } }`,
	`const K = 5 const J = K + 1 const G = I1 I2 mart Mt { I0 J G ITEM_NONE } movement M { J G } text T { "J" } script S { J ( J , G ) J : goto ( J ) if ( flag ( J ) && var ( G ) == J ) { switch ( var ( J ) ) { case J : x case G : y } } } mapscripts Mp { J : S G [ J , G : S ] }`,
	`script S { if ( flag ( A ) ) { if ( var ( B ) < 2 ) { switch ( var ( C ) ) { case 1 : while ( flag ( D ) ) { x ( ( 1 + 2 ) , "t" ) break } } } } }`,
	// the unselected cases hold inline data; explicit texts and movements carry the names that data would get if it counted
	`script S { poryswitch ( V ) { B { msgbox ( "b1" ) am ( 1 , moves ( m1 ) ) } C : msgbox ( "c1" ) _ { nop } } msgbox ( "own" ) poryswitch ( V ) { B : am ( 2 , moves ( m2 ) ) _ : am ( 3 , moves ( m3 ) ) } } text S_Text_1 { "user 1" } text S_Text_2 { "user 2" } movement S_Movement_1 { u } movement S_Movement_2 { d }`,
}

type c18Config struct {
	name string
	opts comp.Opts
	cmd  string // identifies the command config: lint and normal runs are compared per command config
}

var c18CmdShipped, c18CmdNeg, c18CmdBig, c18CmdDict parser.CommandConfig

func repoDir() string {
	if d := os.Getenv("PMC_REPO"); d != "" {
		return d
	}
	return "/repo"
}

func c18Configs(tier string) []c18Config {
	if c18CmdShipped.AutoVarCommands == nil {
		b, err := os.ReadFile(repoDir() + "/command_config.json")
		if err == nil {
			json.Unmarshal(b, &c18CmdShipped)
		}
		c18CmdNeg = parser.CommandConfig{AutoVarCommands: map[string]parser.AutoVarCommand{"specialvar": {VarNameArgPosition: comp.IntPtr(-1)}, "abc": {VarName: "VAR_RESULT"}}}
		c18CmdBig = parser.CommandConfig{AutoVarCommands: map[string]parser.AutoVarCommand{"specialvar": {VarNameArgPosition: comp.IntPtr(3)}, "abc": {VarNameArgPosition: comp.IntPtr(0)}}}
	}
	font := repoDir() + "/font_config.json"
	sw := map[string]string{"V": "A", "abc": "5"}
	cs := []c18Config{
		{"normal/optimize/lm+path/no-switches/shipped-font/shipped-cmd", comp.Opts{Optimize: true, LineMarkers: true, Path: "f.pory", FontPath: font, Cmd: c18CmdShipped}, "shipped"},
		{"normal/no-optimize/lm-no-path/switches/missing-font/argpos3-cmd", comp.Opts{LineMarkers: true, Switches: sw, FontPath: "/nonexistent/fonts.json", Cmd: c18CmdBig}, "big"},
		{"normal/optimize/no-lm/switches/shipped-font/unknown-default-font/argpos-1-cmd", comp.Opts{Optimize: true, Path: "f.pory", Switches: sw, FontPath: font, FontID: "bogus", MaxLen: 30, Cmd: c18CmdNeg}, "neg"},
		{"normal/no-optimize/no-lm/switches/shipped-font/shipped-cmd", comp.Opts{Path: "f.pory", Switches: sw, FontPath: font, Cmd: c18CmdShipped}, "shipped"},
		{"lint/shipped-cmd", comp.Opts{Lint: true, Cmd: c18CmdShipped}, "shipped"},
	}
	// a command config whose keys are every identifier-like literal of the compiler's own source - keywords and operator
	// names included (a config may list any string) - with var names, positions and empty entries rotating
	if c18CmdDict.AutoVarCommands == nil {
		c18CmdDict = parser.CommandConfig{AutoVarCommands: map[string]parser.AutoVarCommand{}}
		for i, w := range dict.Identifiers(dict.Load(repoDir()), 24) {
			switch i % 3 {
			case 0:
				c18CmdDict.AutoVarCommands[w] = parser.AutoVarCommand{VarName: "VAR_RESULT"}
			case 1:
				c18CmdDict.AutoVarCommands[w] = parser.AutoVarCommand{VarNameArgPosition: comp.IntPtr(0)}
			default:
				c18CmdDict.AutoVarCommands[w] = parser.AutoVarCommand{}
			}
		}
		for _, w := range []string{"var", "flag", "defeated", "value", "format", "moves", "if", "while", "switch", "abc", "specialvar", "x"} {
			c18CmdDict.AutoVarCommands[w] = parser.AutoVarCommand{VarName: "VAR_RESULT"}
		}
	}
	cs = append(cs,
		c18Config{"normal/optimize/lm-no-path/switches/no-font/dictionary-cmd", comp.Opts{Optimize: true, LineMarkers: true, Switches: sw, Cmd: c18CmdDict}, "dict"},
		c18Config{"lint/dictionary-cmd", comp.Opts{Lint: true, Cmd: c18CmdDict}, "dict"},
	)
	if tier == "thorough" {
		cs = append(cs,
			c18Config{"lint/argpos-1-cmd", comp.Opts{Lint: true, Cmd: c18CmdNeg}, "neg"},
			c18Config{"lint/argpos3-cmd", comp.Opts{Lint: true, Cmd: c18CmdBig}, "big"},
			c18Config{"normal/no-optimize/lm+path/switches-B/shipped-font/no-cmd", comp.Opts{LineMarkers: true, Path: "dir\\f.pory", Switches: map[string]string{"V": "B"}, FontPath: font, FontID: "1_latin_frlg"}, "none"},
		)
	}
	return cs
}

var c18MsgRe = regexp.MustCompile(`'[^']*'|"[^"]*"|\d+`)

// c18Input returns the idx-th input of a kind.
type c18Space struct {
	kind  string
	total uint64
	input func(idx uint64) string
}

func c18Spaces(tier string) []c18Space {
	seqLen, charLen := 2, 3
	if tier == "quick" {
		seqLen, charLen = 2, 4
	}
	if tier == "thorough" {
		seqLen, charLen = 3, 5
	}
	nL := uint64(len(c18Lexemes))
	seqTotal := uint64(0)
	var seqOffsets []uint64 // cumulative counts per length
	for L := 0; L <= seqLen; L++ {
		n := uint64(1)
		for i := 0; i < L; i++ {
			n *= nL
		}
		seqOffsets = append(seqOffsets, seqTotal)
		seqTotal += n
	}
	seqAt := func(idx uint64) string {
		L := 0
		for L+1 < len(seqOffsets) && idx >= seqOffsets[L+1] {
			L++
		}
		x := idx - seqOffsets[L]
		parts := make([]string, L)
		for i := range parts {
			parts[i] = c18Lexemes[x%nL]
			x /= nL
		}
		return strings.Join(parts, " ")
	}
	nP, nS := uint64(len(c18Prefixes)), uint64(len(c18Suffixes))
	spaces := []c18Space{{
		kind: "prefix+tokens", total: seqTotal * nP * nS,
		input: func(idx uint64) string {
			s := c18Suffixes[idx%nS]
			x := idx / nS
			p := c18Prefixes[x%nP]
			return p + " " + seqAt(x/nP) + s
		},
	}}
	// deviations of the seeds: truncation, deletion, replacement, insertion
	type dev struct {
		seed, pos, kind, tok int
	}
	var seeds [][]string
	var devOffsets []uint64
	devTotal := uint64(0)
	for _, s := range c18Seeds {
		t := strings.Fields(s)
		// re-join raw string tokens split by Fields
		var toks []string
		for i := 0; i < len(t); i++ {
			if strings.HasPrefix(t[i], "`") && !strings.HasSuffix(t[i], "`") && i+1 < len(t) {
				toks = append(toks, t[i]+" "+t[i+1])
				i++
			} else if strings.HasPrefix(t[i], "\"") && !(len(t[i]) > 1 && strings.HasSuffix(t[i], "\"")) {
				j := i
				cur := t[i]
				for j+1 < len(t) && !strings.HasSuffix(cur, "\"") {
					j++
					cur += " " + t[j]
				}
				toks = append(toks, cur)
				i = j
			} else {
				toks = append(toks, t[i])
			}
		}
		seeds = append(seeds, toks)
		devOffsets = append(devOffsets, devTotal)
		T := uint64(len(toks))
		devTotal += 1 + T + T + T*nL + (T+1)*nL
	}
	devAt := func(idx uint64) string {
		si := 0
		for si+1 < len(devOffsets) && idx >= devOffsets[si+1] {
			si++
		}
		toks := seeds[si]
		x := idx - devOffsets[si]
		T := uint64(len(toks))
		out := append([]string{}, toks...)
		switch {
		case x == 0:
		case x < 1+T: // truncation after x tokens (x-1 .. )
			out = out[:x-1]
		case x < 1+2*T: // deletion
			p := x - 1 - T
			out = append(out[:p], out[p+1:]...)
		case x < 1+2*T+T*nL: // replacement
			y := x - 1 - 2*T
			out[y/nL] = c18Lexemes[y%nL]
		default: // insertion
			y := x - 1 - 2*T - T*nL
			p := y / nL
			out = append(out[:p], append([]string{c18Lexemes[y%nL]}, out[p:]...)...)
		}
		return strings.Join(out, " ")
	}
	spaces = append(spaces, c18Space{kind: "seed-deviations", total: devTotal, input: devAt})
	if tier == "thorough" {
		// all pairs of deviations (bound 2) on the three smallest seeds: apply a second single-token deviation to every 1-deviation
		small := []int{3, 5, 6}
		var offs []uint64
		tot := uint64(0)
		for _, si := range small {
			T := uint64(len(seeds[si]))
			n1 := 1 + T + T + T*nL + (T+1)*nL
			offs = append(offs, tot)
			tot += n1 * (T + 1) * (nL + 1)
		}
		spaces = append(spaces, c18Space{kind: "seed-2-deviations", total: tot, input: func(idx uint64) string {
			k := 0
			for k+1 < len(offs) && idx >= offs[k+1] {
				k++
			}
			si := small[k]
			T := uint64(len(seeds[si]))
			x := idx - offs[k]
			second := x % ((T + 1) * (nL + 1))
			first := x / ((T + 1) * (nL + 1))
			base := strings.Fields(devAt(devOffsets[si] + first))
			p := second / (nL + 1)
			tk := second % (nL + 1)
			if p > uint64(len(base)) {
				p = uint64(len(base))
			}
			if tk == nL { // delete at p
				if p < uint64(len(base)) {
					base = append(base[:p], base[p+1:]...)
				}
			} else {
				base = append(base[:p], append([]string{c18Lexemes[tk]}, base[p:]...)...)
			}
			return strings.Join(base, " ")
		}})
	}
	// well-formed programs: every sequence of statement templates (shared with C01)
	stmtSeqLen := 2
	if tier == "thorough" {
		stmtSeqLen = 3
	}
	spaces = append(spaces, c18Space{kind: "statement-sequences", total: seqCount(stmtSeqLen), input: func(idx uint64) string {
		return model.Print([]*model.Script{seqProgram(idx)})
	}})
	// constant definitions: every sequence of <= D definitions over three names whose values mention each
	// other (forward, backward, cyclic, self, redefinition), followed by a program that uses all three names
	// at every kind of use site
	constLen := 3
	if tier == "thorough" {
		constLen = 4
	}
	var constDefsAlphabet []string
	for _, n := range []string{"A", "B", "C"} {
		for _, v := range []string{"A", "B", "C", "A + 1", "( B )", "5"} {
			constDefsAlphabet = append(constDefsAlphabet, "const "+n+" = "+v+"\n")
		}
	}
	const constUse = "script S {\n\tx(A, B + 1, (C))\n\tif (flag(A) && var(B) == C) {\n\t\tswitch (var(C)) {\n\t\t\tcase A:\n\t\t\t\ty\n\t\t\tcase B:\n\t\t\t\tz\n\t\t}\n\t}\n}\nmart Mt {\n\tA\n\tB\n\tC\n}\nmapscripts Mp {\n\tT [\n\t\tA, B: S\n\t\tC, 1 {\n\t\t\tw(A)\n\t\t}\n\t]\n}\n"
	nCD := uint64(len(constDefsAlphabet))
	cdTotal, cdPow := uint64(0), uint64(1)
	for l := 1; l <= constLen; l++ {
		cdPow *= nCD
		cdTotal += cdPow
	}
	spaces = append(spaces, c18Space{kind: "const-definitions", total: cdTotal, input: func(idx uint64) string {
		l, pow := 1, nCD
		for idx >= pow {
			idx -= pow
			pow *= nCD
			l++
		}
		var sb strings.Builder
		for i := 0; i < l; i++ {
			sb.WriteString(constDefsAlphabet[idx%nCD])
			idx /= nCD
		}
		return sb.String() + constUse
	}})
	// the size dimension: every scaled program (templates repeated K times, blocks nested K deep, switches with K cases)
	scaled := scaledPrograms(tier)
	spaces = append(spaces, c18Space{kind: "scaled-programs", total: uint64(len(scaled)), input: func(idx uint64) string {
		return model.Print([]*model.Script{scaled[idx].Script})
	}})
	// numbers: every integer from 0 to a bound, decimal and hex, at every position that interprets a number (comparison
	// value, value(), case value, command argument, table value, format() parameters)
	maxNum := uint64(70000)
	if tier == "thorough" {
		maxNum = 1 << 20
	}
	// ... and the powers of two and ten around every machine integer width
	bigNums := []string{"2147483647", "2147483648", "4294967295", "4294967296", "1099511627776", "4611686018427387904", "9223372036854775807", "9223372036854775808", "18446744073709551615", "18446744073709551616", "100000000000000000000", "0x7fffffff", "0x80000000", "0xffffffff", "0x7fffffffffffffff", "0xffffffffffffffff", "0x10000000000000000", "1000000000", "10000000000", "999999999999"}
	spaces = append(spaces, c18Space{kind: "numbers", total: (maxNum+1)*3 + uint64(len(bigNums))*3, input: func(idx uint64) string {
		if idx >= (maxNum+1)*3 {
			big := idx - (maxNum+1)*3
			lit := bigNums[big/3]
			switch big % 3 {
			case 0:
				return "script S {\n\tif (var(V) == " + lit + ") {\n\t\tx(" + lit + ", value(" + lit + "))\n\t}\n\tswitch (var(X)) {\n\t\tcase " + lit + ":\n\t\t\tz\n\t}\n}\nmapscripts M {\n\tT [\n\t\tV, " + lit + ": S\n\t]\n}\nmovement Mv {\n\ts * " + lit + "\n}\n"
			case 1:
				return "text T {\n\tformat(\"aa bb cc dd\", \"TEST\", " + lit + ")\n}\nscript S2 {\n\tmsgbox(format(\"aa bb cc\", maxLineLength=" + lit + "))\n}\n"
			default:
				return "text T {\n\tformat(\"aa bb cc dd\", numLines=" + lit + ")\n}\ntext T2 {\n\tformat(\"aa bb cc dd\", cursorOverlapWidth=" + lit + ")\n}\n"
			}
		}
		n := idx / 3
		switch idx % 3 {
		case 0, 1:
			lit := fmt.Sprint(n)
			if idx%3 == 1 {
				lit = fmt.Sprintf("0x%X", n)
			}
			return "script S {\n\tif (var(V) == " + lit + ") {\n\t\tx\n\t}\n\twhile (var(W) < " + lit + " && flag(F)) {\n\t\ty(" + lit + ", value(" + lit + "))\n\t}\n\tswitch (var(X)) {\n\t\tcase " + lit + ":\n\t\t\tz\n\t}\n\tif (var(Y) >= value(" + lit + ") || specialvar(VAR_RESULT, A) != " + lit + ") {\n\t\tq\n\t}\n}\nmapscripts M {\n\tT [\n\t\tV, " + lit + ": S\n\t]\n}\n"
		default:
			lit := fmt.Sprint(n)
			return "text T {\n\tformat(\"aa bb cc dd\", \"TEST\", " + lit + ", numLines=" + lit + ", cursorOverlapWidth=" + lit + ")\n}\nscript S2 {\n\tmsgbox(format(\"aa bb cc\", " + lit + "))\n}\n" // (every movement multiplier value is in C14)
		}
	}})
	// long text literals: every content length N up to 2100 bytes (and some far beyond) x what stands at the start / end of
	// the content (nothing, an unclosed or closed brace code, a backslash, a multi-byte character, spaces only) x origin
	longNs := []int{4094, 4095, 4096, 4097, 8192, 16384, 32768, 65534, 65535, 65536, 70000}
	const longVariants, longOrigins, longMaxN = 8, 4, 2100
	spaces = append(spaces, c18Space{kind: "long-texts", total: uint64(longMaxN+1+len(longNs)) * longVariants * longOrigins, input: func(idx uint64) string {
		origin := int(idx % longOrigins)
		idx /= longOrigins
		variant := int(idx % longVariants)
		idx /= longVariants
		n := int(idx)
		if n > longMaxN {
			n = longNs[n-longMaxN-1]
		}
		fill := strings.Repeat("a", n)
		var content string
		switch variant {
		case 0:
			content = fill
		case 1:
			content = "{" + fill // an unclosed brace code followed by n characters
		case 2:
			content = fill + "{"
		case 3:
			content = "{" + fill + "}"
		case 4:
			content = fill + `\`
		case 5:
			content = fill + "é"
		case 6:
			content = strings.Repeat(" ", n)
		default:
			content = strings.Repeat("ab ", n/3) + "{X"
		}
		switch origin {
		case 0:
			return "text T {\n\t\"" + content + "\"\n}\n"
		case 1:
			return "script S {\n\tmsgbox(\"" + content + "\")\n}\n"
		case 2:
			return "text T {\n\tformat(\"" + content + "\")\n}\n"
		default:
			return "script S {\n\tmsgbox(ascii\"" + content + "\")\n\tx(custom\"" + content + "\")\n}\n"
		}
	}})
	// alternating nests: a poryswitch case that holds a block statement whose block holds the next poryswitch, K levels deep
	// for every K up to 48, around one inline text or moves(); 4 block kinds x brace / colon form x 2 cores. (Work that
	// doubles per level - data of a case collected once per enclosing construct - stays invisible in nests of one kind.)
	const altMaxK = 48
	spaces = append(spaces, c18Space{kind: "alternating-nests", total: altMaxK * 4 * 2 * 2, input: func(idx uint64) string {
		k := int(idx/16) + 1
		block, colon, core := int(idx%4), idx/4%2 == 1, idx/8%2
		var open, closing []string
		for i := 0; i < k; i++ {
			var bo, bc string
			switch block {
			case 0:
				bo, bc = fmt.Sprintf("if (flag(F%d)) {", i), "}"
			case 1:
				bo, bc = fmt.Sprintf("while (var(V%d) < 2) {", i), "}"
			case 2:
				bo, bc = "do {", fmt.Sprintf("} while (flag(D%d))", i)
			default:
				bo, bc = fmt.Sprintf("switch (var(S%d)) { case 1:", i), "}"
			}
			if colon {
				open = append(open, "poryswitch(V) { X: other _: "+bo)
				closing = append(closing, bc+" }")
			} else {
				open = append(open, "poryswitch(V) { X { other } _ { "+bo)
				closing = append(closing, bc+" } }")
			}
		}
		inner := "msgbox(\"hi\")"
		if core == 1 {
			inner = "applymovement(1, moves(u d))"
		}
		var sb strings.Builder
		sb.WriteString("script S {\n")
		for _, o := range open {
			sb.WriteString(o + "\n")
		}
		sb.WriteString(inner + "\n")
		for i := len(closing) - 1; i >= 0; i-- {
			sb.WriteString(closing[i] + "\n")
		}
		sb.WriteString("}\n")
		return sb.String()
	}})
	// format() texts over a brace alphabet: every string of <= 8 characters over { } a blank (stray, nested, unclosed and
	// adjacent brace codes inside words), in a text statement and inline
	const braceMax = 8
	braceTotal := uint64(0)
	var braceOff []uint64
	for l := 0; l <= braceMax; l++ {
		braceOff = append(braceOff, braceTotal)
		braceTotal += 1 << (2 * uint(l))
	}
	spaces = append(spaces, c18Space{kind: "format-brace-texts", total: braceTotal * 2, input: func(idx uint64) string {
		inline := idx%2 == 1
		idx /= 2
		l := 0
		for l+1 < len(braceOff) && idx >= braceOff[l+1] {
			l++
		}
		x := idx - braceOff[l]
		var sb strings.Builder
		for i := 0; i < l; i++ {
			sb.WriteByte("{}a "[x&3])
			x >>= 2
		}
		if inline {
			return "script S {\n\tmsgbox(format(\"" + sb.String() + "\", \"TEST\", 30))\n}\n"
		}
		return "text T {\n\tformat(\"" + sb.String() + "\")\n}\n"
	}})
	// long tokens where another token is expected (error paths quote the unexpected token): a string, an identifier, a raw
	// string or a number of N characters for every N up to 400, filled with 1-, 2-, 3- and 4-byte characters, in 8 places
	// where the grammar wants something else
	fills := []string{"a", "é", "こ", "😀"}
	const tokKinds, errPlaces, maxTokN = 4, 8, 400
	spaces = append(spaces, c18Space{kind: "long-tokens-in-errors", total: uint64(maxTokN+1) * uint64(len(fills)) * tokKinds * errPlaces, input: func(idx uint64) string {
		place := int(idx % errPlaces)
		idx /= errPlaces
		kind := int(idx % tokKinds)
		idx /= tokKinds
		fill := fills[idx%uint64(len(fills))]
		n := int(idx / uint64(len(fills)))
		body := strings.Repeat(fill, n)
		var tok string
		switch kind {
		case 0:
			tok = "\"" + body + "\""
		case 1:
			tok = "x" + body
		case 2:
			tok = "`" + body + "`"
		default:
			tok = "1" + strings.Repeat("7", n)
		}
		switch place {
		case 0:
			return "text T\n\t" + tok + "\n}\n"
		case 1:
			return "script S " + tok + " {\n\tx\n}\n"
		case 2:
			return "script S {\n\tif (flag(X)) " + tok + "\n}\n"
		case 3:
			return "text T {\n\tformat " + tok + "\n}\n"
		case 4:
			return "script S {\n\tswitch (var(V)) {\n\t\tcase " + tok + " x\n\t}\n}\n"
		case 5:
			return "script S {\n\tporyswitch(" + tok + " {\n\t}\n}\n"
		case 6:
			return "mapscripts M {\n\tT [\n\t\tVAR_A " + tok + "\n\t]\n}\n"
		default:
			return "const " + tok + " " + tok + "\nmovement M " + tok + "\n"
		}
	}})
	// character strings
	nC := uint64(len(c18Chars))
	var chOffsets []uint64
	chTotal := uint64(0)
	for L := 0; L <= charLen; L++ {
		n := uint64(1)
		for i := 0; i < L; i++ {
			n *= nC
		}
		chOffsets = append(chOffsets, chTotal)
		chTotal += n
	}
	spaces = append(spaces, c18Space{kind: "char-strings", total: chTotal * 2, input: func(idx uint64) string {
		wrap := idx % 2
		idx /= 2
		L := 0
		for L+1 < len(chOffsets) && idx >= chOffsets[L+1] {
			L++
		}
		x := idx - chOffsets[L]
		var sb strings.Builder
		for i := 0; i < L; i++ {
			sb.WriteString(c18Chars[x%nC])
			x /= nC
		}
		if wrap == 1 {
			return "script S { x(" + sb.String()
		}
		return sb.String()
	}})
	return spaces
}

type c18Finding struct {
	Sig    string `json:"sig"`
	What   string `json:"what"`
	Input  string `json:"input"`
	Config string `json:"config"`
}

var c18EnvErr = []string{"no poryswitch", "poryswitch used, but no compile switches", "unknown fontID", "no compile switches"}

// c18One runs one input under every configuration and returns findings and the error-message shapes seen.
func c18One(src string, cfgs []c18Config, shapes map[string]struct{}) (fs []c18Finding, errored bool) {
	if !utf8.ValidString(src) {
		return nil, false
	}
	maxLine := strings.Count(src, "\n") + 1
	normalAccepts := map[string]bool{}
	lintErr := map[string]error{}
	for _, c := range cfgs {
		res := comp.Compile(src, c.opts)
		if res.Panic != "" {
			fs = append(fs, c18Finding{"C18:panic:" + firstWords(c18MsgRe.ReplaceAllString(firstLine(res.Panic), "_"), 6), "panic: " + firstLine(res.Panic), src, c.name})
			continue
		}
		if res.Err != nil {
			errored = true
			if res.Out != "" {
				fs = append(fs, c18Finding{"C18:output-and-error", "both output and an error were returned", src, c.name})
			}
			shapes[c18MsgRe.ReplaceAllString(res.Err.Error(), "_")] = struct{}{}
			pe, ok := res.ParseErr()
			if !ok {
				fs = append(fs, c18Finding{"C18:unlocated-error:" + firstWords(c18MsgRe.ReplaceAllString(res.Err.Error(), "_"), 6), "error without a location: " + res.Err.Error(), src, c.name})
			} else if pe.LineNumberStart < 1 || pe.LineNumberStart > pe.LineNumberEnd || pe.LineNumberEnd > maxLine || (pe.LineNumberStart == pe.LineNumberEnd && (pe.CharStart > pe.CharEnd || pe.Utf8CharStart > pe.Utf8CharEnd)) {
				fs = append(fs, c18Finding{"C18:bad-error-range:" + firstWords(c18MsgRe.ReplaceAllString(pe.Message, "_"), 6), fmt.Sprintf("error %q has range line %d col %d .. line %d col %d in an input of %d lines", pe.Message, pe.LineNumberStart, pe.CharStart, pe.LineNumberEnd, pe.CharEnd, maxLine), src, c.name})
			}
			if c.opts.Lint {
				lintErr[c.cmd] = res.Err
				for _, e := range c18EnvErr {
					if strings.Contains(res.Err.Error(), e) {
						fs = append(fs, c18Finding{"C18:lint-environment-error", "lint mode failed because of the environment: " + res.Err.Error(), src, c.name})
					}
				}
			}
		} else if !c.opts.Lint {
			normalAccepts[c.cmd] = true
		}
	}
	for cmd, le := range lintErr {
		if normalAccepts[cmd] {
			fs = append(fs, c18Finding{"C18:lint-rejects-accepted:" + firstWords(c18MsgRe.ReplaceAllString(le.Error(), "_"), 6), "normal mode accepts the program but lint mode (same command config) rejects it: " + le.Error(), src, "lint vs normal, command config " + cmd})
		}
	}
	return fs, errored
}

// C18Worker is the subprocess entry: pmc c18worker <tier> <kind-index> <lo> <hi> <slow>
func C18Worker(args []string) {
	tier := args[0]
	ki, _ := strconv.Atoi(args[1])
	lo, _ := strconv.ParseUint(args[2], 10, 64)
	hi, _ := strconv.ParseUint(args[3], 10, 64)
	slow := args[4] == "1"
	sp := c18Spaces(tier)[ki]
	cfgs := c18Configs(tier)
	w := bufio.NewWriter(os.Stdout)
	defer w.Flush()
	shapes := map[string]struct{}{}
	last := time.Now()
	var n, errored int64
	for i := lo; i < hi; i++ {
		if slow {
			fmt.Fprintf(w, "B %d\n", i)
			w.Flush()
		} else if i%64 == 0 && time.Since(last) > 150*time.Millisecond {
			fmt.Fprintf(w, "P %d\n", i)
			w.Flush()
			last = time.Now()
		}
		src := sp.input(i)
		fs, e := c18One(src, cfgs, shapes)
		n++
		if e {
			errored++
		}
		for _, f := range fs {
			b, _ := json.Marshal(f)
			fmt.Fprintf(w, "V %s\n", b)
		}
	}
	var sh []string
	for s := range shapes {
		sh = append(sh, s)
	}
	b, _ := json.Marshal(map[string]interface{}{"n": n, "errored": errored, "shapes": sh})
	fmt.Fprintf(w, "S %s\nD\n", b)
}

func runC18(tier string) int {
	r := harness.NewRun("C18", "exploration", tier, budget(tier, 55*time.Second, 12*time.Minute))
	exe, _ := os.Executable()
	spaces := c18Spaces(tier)
	type job struct {
		ki     int
		lo, hi uint64
	}
	var jobs []job
	const chunk = 40000
	for ki, sp := range spaces {
		for lo := uint64(0); lo < sp.total; lo += chunk {
			hi := lo + chunk
			if hi > sp.total {
				hi = sp.total
			}
			jobs = append(jobs, job{ki, lo, hi})
		}
		r.Set("inputs_"+sp.kind, sp.total)
	}
	var mu sync.Mutex
	shapes := map[string]struct{}{}
	next := 0
	hangs := 0 // confirmed hangs / worker deaths; the run stops after a few (each costs tens of seconds)
	var wg sync.WaitGroup
	// runWorker runs [lo,hi) and returns the index at which it stalled or died (ok=false), if any.
	runWorker := func(ki int, lo, hi uint64, slow bool) (stalledAt uint64, died bool, stalled bool) {
		slowArg := "0"
		if slow {
			slowArg = "1"
		}
		cmd := exec.Command(exe, "c18worker", tier, strconv.Itoa(ki), strconv.FormatUint(lo, 10), strconv.FormatUint(hi, 10), slowArg)
		cmd.Env = append(os.Environ(), "GOMAXPROCS=1", "GOMEMLIMIT=3GiB")
		out, _ := cmd.StdoutPipe()
		cmd.Stderr = nil
		if err := cmd.Start(); err != nil {
			r.Note("cannot start worker: %v", err)
			return lo, true, false
		}
		lines := make(chan string, 1024)
		go func() {
			sc := bufio.NewScanner(out)
			sc.Buffer(make([]byte, 1<<20), 1<<24)
			for sc.Scan() {
				lines <- sc.Text()
			}
			close(lines)
		}()
		// "never grows without bound": the worker's resident set is sampled; a compile of a tiny input
		// that drives it beyond 3 GiB is stopped and counts like a worker death.
		stopMem := make(chan struct{})
		defer close(stopMem)
		go func() {
			t := time.NewTicker(300 * time.Millisecond)
			defer t.Stop()
			for {
				select {
				case <-stopMem:
					return
				case <-t.C:
					b, err := os.ReadFile(fmt.Sprintf("/proc/%d/statm", cmd.Process.Pid))
					if err != nil {
						return
					}
					var size, rss int64
					fmt.Sscanf(string(b), "%d %d", &size, &rss)
					if rss*4096 > 3<<30 {
						cmd.Process.Kill()
						return
					}
				}
			}
		}()
		at := lo
		done := false
		limit := 20 * time.Second
		if slow {
			limit = 10 * time.Second
		}
		timer := time.NewTimer(limit)
		defer timer.Stop()
		for {
			select {
			case l, ok := <-lines:
				if !ok {
					cmd.Wait()
					if done {
						return 0, false, false
					}
					return at, true, false
				}
				if !timer.Stop() {
					select {
					case <-timer.C:
					default:
					}
				}
				timer.Reset(limit)
				switch {
				case strings.HasPrefix(l, "P "), strings.HasPrefix(l, "B "):
					at, _ = strconv.ParseUint(l[2:], 10, 64)
				case strings.HasPrefix(l, "V "):
					var f c18Finding
					if json.Unmarshal([]byte(l[2:]), &f) == nil {
						ff := f
						kk := ki
						r.Report(harness.Violation{Sig: f.Sig, Summary: fmt.Sprintf("%s\n  config: %s\n  input: %q", f.What, f.Config, clip(f.Input, 400)), Replay: map[string]interface{}{"input": f.Input, "config": f.Config, "problem": f.What, "space": spaces[kk].kind},
							Recheck: func() bool {
								fs, _ := c18One(ff.Input, c18Configs(tier), map[string]struct{}{})
								for _, g := range fs {
									if g.Sig == ff.Sig {
										return true
									}
								}
								return false
							}})
					}
				case strings.HasPrefix(l, "S "):
					var st struct {
						N, Errored int64
						Shapes     []string
					}
					if json.Unmarshal([]byte(l[2:]), &st) == nil {
						r.Add("evaluations", st.N*int64(len(c18Configs(tier))))
						r.Add("inputs", st.N)
						r.Add("nontrivial", st.Errored)
						mu.Lock()
						for _, s := range st.Shapes {
							shapes[s] = struct{}{}
						}
						mu.Unlock()
					}
				case l == "D":
					done = true
				}
			case <-timer.C:
				cmd.Process.Kill()
				cmd.Wait()
				return at, false, true
			}
		}
	}
	for w := 0; w < r.Workers; w++ {
		wg.Add(1)
		go func() {
			defer wg.Done()
			for {
				mu.Lock()
				if next >= len(jobs) || r.Expired() || hangs >= 3 {
					mu.Unlock()
					return
				}
				j := jobs[next]
				next++
				mu.Unlock()
				lo := j.lo
				for lo < j.hi {
					at, died, stalled := runWorker(j.ki, lo, j.hi, false)
					if !died && !stalled {
						break
					}
					// find the exact input in slow mode, starting at the last reported index
					r.Add("worker_restarts", 1)
					at2, died2, stalled2 := runWorker(j.ki, at, j.hi, true)
					if !died2 && !stalled2 {
						break // not reproducible: the block completed in slow mode
					}
					src := spaces[j.ki].input(at2)
					// R5: re-run the suspected input alone before it counts
					_, d3, s3 := runWorker(j.ki, at2, at2+1, true)
					if d3 || s3 {
						what := "the compiler does not return within 10 s (hang)"
						sig := "C18:hang"
						if died2 && !stalled2 {
							what, sig = "the worker process died (fatal runtime error / out of memory)", "C18:fatal"
						}
						r.Report(harness.Violation{Sig: sig, Summary: fmt.Sprintf("%s\n  input: %q", what, clip(src, 400)), Replay: map[string]interface{}{"input": src, "problem": what, "space": spaces[j.ki].kind}})
						mu.Lock()
						hangs++
						stop := hangs >= 3
						mu.Unlock()
						if stop {
							return
						}
					}
					lo = at2 + 1
				}
			}
		}()
	}
	wg.Wait()
	if next < len(jobs) {
		r.NotExhaustive(fmt.Sprintf("%d of %d input blocks completed", next, len(jobs)))
	}
	var sh []string
	for s := range shapes {
		sh = append(sh, s)
	}
	sort.Strings(sh)
	r.Set("distinct_error_messages_reached", len(sh))
	for i, s := range sh {
		if i < 2 {
			r.Sample(map[string]interface{}{"error_message_shape": s})
		}
	}
	for _, sp := range spaces {
		r.Sample(map[string]interface{}{"input": sp.input(sp.total / 3), "space": sp.kind})
	}
	r.Set("configurations", len(c18Configs(tier)))
	r.Assume("a hang is a worker that produces nothing for 10 s on one input (normal cost ~10 microseconds), confirmed by re-running that input alone",
		"configurations are a covering set, not the full matrix: every option value appears in at least one configuration",
		"an error must be a parser.ParseError with 1 <= start line <= end line <= number of lines (counting the empty line after a final newline)")
	return r.Finish(r.Get("evaluations"), r.Get("nontrivial"),
		"(a) every sequence of <= L tokens from a 57-lexeme alphabet after each of 29 context prefixes, with 3 suffixes; (b) every single deviation (truncation, deletion, replacement or insertion by every alphabet token) of 12 seed programs that use every production (thorough: pairs of deviations on the small seeds); (c) every sequence of <= S well-formed statement templates (29 templates, shared with C01); (d) every sequence of <= D constant definitions over three names whose values mention each other, followed by a program using them at every use site; (e) every integer from 0 to 70000 (thorough 2^20) and 20 values around 2^31, 2^32, 2^63, 2^64 and powers of ten, decimal and hex, at every position that interprets a number; (e') every scaled program (templates repeated K times, blocks nested K deep, switches with K cases); (j) format() of every string of <= 8 characters over { } a and blank; (i) poryswitch cases and block statements nested alternately K deep for every K <= 48 (4 block kinds, brace and colon cases, an inline text or moves() at the core); (h) a string / identifier / raw string / number token of every length up to 400 characters of 1 to 4 bytes each in 8 places where the grammar expects another token; (g) text literals of every length up to 2100 bytes (and 11 lengths up to 70000) x 8 start/end shapes (unclosed / closed brace code, trailing backslash, multi-byte end, spaces only) x 4 origins; (f) every string of <= N characters over 23 characters incl. multi-byte letters, a 3-byte non-letter, U+FFFD, NUL, quote, backtick, CR, bare and inside 'script S { x('; each input under a covering set of configurations (optimize, line markers/path, switches, font file/default font, command configs incl. argument positions -1 and 3 and one whose keys are the identifier-like literals of the compiler's source and its keywords, normal and lint); evaluations = input x configuration runs; non-trivial = the input is rejected (an error path is taken)")
}
