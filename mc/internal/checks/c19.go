package checks

import (
	"fmt"
	"strings"
	"time"
	"unicode"
	"unicode/utf8"

	"github.com/huderlem/poryscript/lexer"
	"github.com/huderlem/poryscript/token"

	"pmc/internal/comp"
	"pmc/internal/dict"
	"pmc/internal/harness"
	"pmc/internal/model"
)

// C19 — tokenisation ignores layout and comments and reports true positions.
// Generator-free oracles: (1) every token's reported position locates its
// lexeme in the source; (2) replacing the gap between two tokens (as the lexer
// itself reports them) by any other separator never changes the (type,
// literal) sequence; (3) the compiled output of corpus programs is unchanged.

func init() { register(&Check{ID: "C19", Run: runC19}) }

var c19Chars = []string{"a", "é", "€", "٣", "0", "1", "x", "-", "\"", "`", " ", "\t", "\n", "\r", "#", "/", "=", "!", "(", ":"}

var c19Seps = []string{" ", "\t", "\n", "\r\n", "  ", "\n\n", "# c\n", "// c\n", " # é\r\n\t", "# c\n \t# d\n", "// c\n\n  // d\n// e\n", "# d:\\x\\\n", " // c \\\n\t", "//\n", "#\n", " //\n\t#\n"} // comment text ending in a backslash; the last three: comments without any text

var c19Lexemes = []string{
	"script", "raw", "text", "movement", "mart", "mapscripts", "format", "var", "flag", "defeated", "TRUE", "FALSE", "true", "if", "else", "elif", "do", "while", "break", "continue", "switch", "case", "default", "global", "local", "poryswitch", "const", "value", "moves",
	"abc", "A_1", "é1", "_", "5", "-1", "0", "0x1F", "007", "\"s t\"", "\"\"", "ascii\"x\"", "`r w`",
	"=", "==", "!=", "<", ">", "<=", ">=", "&&", "||", "!", "*", ",", ":", "(", ")", "{", "}", "[", "]", "+", "€", "&", "-", "٣", "%",
}

type ltok struct {
	t     token.Token
	start int  // absolute byte offset of the lexeme
	end   int  // absolute byte offset just after the lexeme
	open  bool // unterminated string / raw string: the lexeme runs to the end of the input
}

func lexAll(src string) (toks []token.Token, panicked bool) {
	defer func() {
		if recover() != nil {
			panicked = true
		}
	}()
	l := lexer.New(src)
	for i := 0; i < len(src)+3; i++ {
		t := l.NextToken()
		toks = append(toks, t)
		if t.Type == token.EOF {
			return toks, false
		}
	}
	return toks, false
}

func isWS(c byte) bool { return c == ' ' || c == '\t' || c == '\n' || c == '\r' }

// stringEnd scans a (possibly multi-part) string lexeme starting at the quote at off.
// open reports an unterminated last part.
func stringEnd(src string, off int) (end int, open bool) {
	i := off
	end = off
	for i < len(src) && src[i] == '"' {
		j := i + 1
		for j < len(src) && src[j] != '"' {
			j++
		}
		if j >= len(src) {
			return len(src), true
		}
		end = j + 1
		i = end
		// parts are joined across white space and comments
		for {
			for i < len(src) && isWS(src[i]) {
				i++
			}
			if i < len(src) && (src[i] == '#' || (src[i] == '/' && i+1 < len(src) && src[i+1] == '/')) {
				for i < len(src) && src[i] != '\n' {
					i++
				}
				continue
			}
			break
		}
	}
	return end, false
}

// positionProblems checks every token's reported position against the source
// and returns the located tokens.
func positionProblems(src string, toks []token.Token) (string, []ltok) {
	lineStart := []int{0}
	for i := 0; i < len(src); i++ {
		if src[i] == '\n' {
			lineStart = append(lineStart, i+1)
		}
	}
	var out []ltok
	prevEnd := 0
	for i, t := range toks {
		if t.LineNumber < 1 || t.LineNumber > len(lineStart) {
			return fmt.Sprintf("token %d %s %q reports line %d of %d", i, t.Type, t.Literal, t.LineNumber, len(lineStart)), nil
		}
		ls := lineStart[t.LineNumber-1]
		off := ls + t.StartCharIndex
		if t.StartCharIndex < 0 || off > len(src) {
			return fmt.Sprintf("token %d %s %q reports start column %d outside the input", i, t.Type, t.Literal, t.StartCharIndex), nil
		}
		end := off
		open := false
		switch t.Type {
		case token.EOF:
			if off != len(src) {
				return fmt.Sprintf("EOF token reports offset %d (line %d col %d), input ends at %d", off, t.LineNumber, t.StartCharIndex, len(src)), nil
			}
		case token.STRING:
			if off >= len(src) || src[off] != '"' {
				return fmt.Sprintf("STRING token %q reports line %d col %d, no quote there", t.Literal, t.LineNumber, t.StartCharIndex), nil
			}
			end, open = stringEnd(src, off)
		case token.RAWSTRING:
			if off >= len(src) || src[off] != '`' {
				return fmt.Sprintf("RAWSTRING token reports line %d col %d, no backtick there", t.LineNumber, t.StartCharIndex), nil
			}
			j := strings.IndexByte(src[off+1:], '`')
			if j < 0 {
				end, open = len(src), true
			} else {
				end = off + 1 + j + 1
			}
		default:
			if !strings.HasPrefix(src[off:], t.Literal) || t.Literal == "" {
				return fmt.Sprintf("token %s %q reports line %d col %d, the source there is %q", t.Type, t.Literal, t.LineNumber, t.StartCharIndex, clip(src[off:], 8)), nil
			}
			end = off + len(t.Literal)
		}
		if off < prevEnd {
			return fmt.Sprintf("token %s %q at offset %d overlaps the previous token ending at %d", t.Type, t.Literal, off, prevEnd), nil
		}
		// What lies between two tokens is layout: white space and comments. A letter, digit, mark, punctuation or symbol there
		// (outside a comment) is a visible character of the program that no token accounts for.
		if i == 0 || !out[len(out)-1].open {
			if r, at := visibleOutsideComments(src[prevEnd:off]); at >= 0 {
				return fmt.Sprintf("dropped character: %q (U+%04X) at offset %d lies between two tokens, outside any comment, and belongs to neither (next token %s %q)", string(r), r, prevEnd+at, t.Type, t.Literal), nil
			}
		}
		if t.Type == token.EOF {
			// EOF has no first character: only its offset (above) is judged.
			out = append(out, ltok{t, off, end, false})
			continue
		}
		if want := utf8.RuneCountInString(src[ls:off]); t.StartUtf8CharIndex != want {
			return fmt.Sprintf("token %s %q reports character column %d, its first character is character %d of the line", t.Type, t.Literal, t.StartUtf8CharIndex, want), nil
		}
		if t.Type != token.RAWSTRING && !strings.Contains(src[off:end], "\n") {
			if t.EndLineNumber != t.LineNumber {
				return fmt.Sprintf("single-line token %s %q reports end line %d, start line %d", t.Type, t.Literal, t.EndLineNumber, t.LineNumber), nil
			}
			if t.EndCharIndex != t.StartCharIndex+(end-off) {
				return fmt.Sprintf("token %s %q: end column %d, start %d + length %d", t.Type, t.Literal, t.EndCharIndex, t.StartCharIndex, end-off), nil
			}
			if want := t.StartUtf8CharIndex + utf8.RuneCountInString(src[off:end]); t.EndUtf8CharIndex != want {
				return fmt.Sprintf("token %s %q: end character column %d, want %d", t.Type, t.Literal, t.EndUtf8CharIndex, want), nil
			}
		}
		out = append(out, ltok{t, off, end, open})
		prevEnd = end
	}
	return "", out
}

// visibleOutsideComments returns the first letter, digit, mark, punctuation or symbol of gap that is not inside a '#' or
// '//' comment (at = -1 when there is none). White space of any kind, control and format characters are layout.
func visibleOutsideComments(gap string) (rune, int) {
	for i := 0; i < len(gap); {
		r, n := utf8.DecodeRuneInString(gap[i:])
		if r == '#' || (r == '/' && strings.HasPrefix(gap[i:], "//")) {
			j := strings.IndexByte(gap[i:], '\n')
			if j < 0 {
				return 0, -1
			}
			i += j + 1
			continue
		}
		if r != utf8.RuneError && (unicode.IsLetter(r) || unicode.IsNumber(r) || unicode.IsMark(r) || unicode.IsPunct(r) || unicode.IsSymbol(r)) {
			return r, i
		}
		i += n
	}
	return 0, -1
}

func sameSeq(a, b []token.Token) bool {
	if len(a) != len(b) {
		return false
	}
	for i := range a {
		if a[i].Type != b[i].Type || a[i].Literal != b[i].Literal {
			return false
		}
	}
	return true
}

func seqString(ts []token.Token) string {
	var sb strings.Builder
	for _, t := range ts {
		fmt.Fprintf(&sb, "%s(%q) ", t.Type, t.Literal)
	}
	return sb.String()
}

// c19Check runs both lexer oracles on one input. gapVariants: try every separator in every gap.
func c19Check(r *harness.Run, src string, gapVariants bool) {
	toks, panicked := lexAll(src)
	r.Add("evaluations", 1)
	if panicked {
		r.Add("lexer_panics_left_to_C18", 1)
		return
	}
	problem, lt := positionProblems(src, toks)
	multi := len(toks) >= 3 && (strings.ContainsAny(src, "\n") || len(src) != utf8.RuneCountInString(src))
	if multi {
		r.Add("nontrivial", 1)
	}
	r.Add("tokens_located", int64(len(toks)))
	if problem != "" {
		r.Report(harness.Violation{Sig: "C19:position:" + firstWords(problem, 2), Summary: fmt.Sprintf("input %q: %s", src, problem), Replay: map[string]interface{}{"input": src, "problem": problem, "tokens": seqString(toks)},
			Recheck: func() bool {
				t2, _ := lexAll(src)
				p2, _ := positionProblems(src, t2)
				return p2 != ""
			}})
		return
	}
	if multi && len(toks) >= 4 && r.WantSample() {
		r.Sample(map[string]interface{}{"input": src, "tokens": seqString(toks), "gap_variants_tried": gapVariants})
	}
	if !gapVariants {
		return
	}
	// gaps: before the first token, between tokens, before EOF
	prevEnd := 0
	for i, t := range lt {
		gapStart, gapEnd := prevEnd, t.start
		prevEnd = t.end
		if i > 0 && lt[i-1].t.Type == token.STRINGTYPE {
			continue // a string-type prefix and its quote are one lexical unit
		}
		if i > 0 && lt[i-1].open {
			continue // an unterminated string runs to the end of the input: no gap follows it
		}
		orig := src[gapStart:gapEnd]
		for _, sep := range c19Seps {
			if sep == orig {
				continue
			}
			if sep[0] == '/' && gapStart > 0 && src[gapStart-1] == '/' {
				continue // "//" glued to a '/' character would not start where the separator starts
			}
			variant := src[:gapStart] + sep + src[gapEnd:]
			vt, vp := lexAll(variant)
			r.Add("gap_variants", 1)
			if vp || !sameSeq(toks, vt) {
				what := fmt.Sprintf("replacing the gap %q between token %d and token %d by %q changes the token sequence: %s => %s", orig, i-1, i, sep, seqString(toks), seqString(vt))
				kind := "between"
				if orig == "" {
					kind = "insert"
				}
				r.Report(harness.Violation{Sig: "C19:layout:" + kind + ":" + string(lt[i].t.Type), Summary: fmt.Sprintf("input %q: %s", src, what), Replay: map[string]interface{}{"input": src, "variant": variant, "problem": what},
					Recheck: func() bool {
						a, _ := lexAll(src)
						b, bp := lexAll(variant)
						return bp || !sameSeq(a, b)
					}})
				return
			}
		}
	}
}

func runC19(tier string) int {
	r := harness.NewRun("C19", "exploration", tier, budget(tier, 55*time.Second, 12*time.Minute))
	maxChars, maxLex := 5, 3
	if tier == "thorough" {
		maxChars, maxLex = 6, 4
	}
	// (a) character level
	nC := uint64(len(c19Chars))
	completedChars := 0
	for L := 0; L <= maxChars && !r.Expired(); L++ {
		total := uint64(1)
		for i := 0; i < L; i++ {
			total *= nC
		}
		done := r.Parallel(total, func(w int, idx uint64) {
			var sb strings.Builder
			x := idx
			for i := 0; i < L; i++ {
				sb.WriteString(c19Chars[x%nC])
				x /= nC
			}
			c19Check(r, sb.String(), L <= maxChars-1)
		})
		if done {
			completedChars = L
		}
	}
	r.Set("max_chars_completed", completedChars)
	// (b) lexeme level: sequences joined by every separator assignment are covered by
	// gap variation from the single-space layout and from the tightest layout.
	nL := uint64(len(c19Lexemes))
	completedLex := 0
	for L := 1; L <= maxLex && !r.Expired(); L++ {
		total := uint64(1)
		for i := 0; i < L; i++ {
			total *= nL
		}
		done := r.Parallel(total, func(w int, idx uint64) {
			parts := make([]string, L)
			x := idx
			for i := range parts {
				parts[i] = c19Lexemes[x%nL]
				x /= nL
			}
			c19Check(r, strings.Join(parts, " "), true)
			c19Check(r, strings.Join(parts, ""), true)
			// Where no two neighbours can run together into another lexeme - one of them is a delimiter ( ) { } [ ] , : or a
			// closed raw string, or the left one is a closed plain string - the blanks between them are dispensable: the sequence
			// written without any blank is the same token sequence. (The lexemes are given by the language, not by the lexer:
			// a lexer that reads 'raw`...`' as one identifier agrees with itself in every layout.)
			glueSafe := L >= 2
			for i := 0; glueSafe && i+1 < L; i++ {
				glueSafe = c19Delimiter(parts[i]) || c19Delimiter(parts[i+1]) || c19ClosedRaw(parts[i]) || c19ClosedRaw(parts[i+1]) || (strings.HasPrefix(parts[i], "\"") && len(parts[i]) >= 2)
			}
			if glueSafe {
				spaced, tight := strings.Join(parts, " "), strings.Join(parts, "")
				a, pa := lexAll(spaced)
				b, pb := lexAll(tight)
				r.Add("tight_layout_comparisons", 1)
				if !pa && !pb && !sameSeq(a, b) {
					r.Report(harness.Violation{Sig: "C19:layout:tight", Summary: fmt.Sprintf("input %q: written without the dispensable blanks (%q) the token sequence changes: %s => %s", spaced, tight, seqString(a), seqString(b)), Replay: map[string]interface{}{"input": spaced, "variant": tight},
						Recheck: func() bool {
							a2, _ := lexAll(spaced)
							b2, _ := lexAll(tight)
							return !sameSeq(a2, b2)
						}})
				}
			}
			if L <= 3 {
				c19Check(r, "\n"+strings.Join(parts, "\n\t")+"\n", true)
				c19Check(r, strings.Join(parts, " # c\r\n"), L <= 2)
				c19Check(r, strings.Join(parts, " // c\n \t# d\n\n  // e\n"), L <= 2)
			}
		})
		if done {
			completedLex = L
		}
	}
	r.Set("max_lexemes_completed", completedLex)
	if completedChars < maxChars || completedLex < maxLex {
		r.NotExhaustive(fmt.Sprintf("completed chars<=%d of %d, lexemes<=%d of %d", completedChars, maxChars, completedLex, maxLex))
	}
	// (d) the size dimension: a token after K lines and after K characters (one- and two-byte) on its line, for every K
	// up to a bound and around every power of two up to 2^17 (a narrow integer type for a line or column would show)
	var ks []int
	for k := 0; k <= 300; k++ {
		ks = append(ks, k)
	}
	maxPow := 17
	if tier == "thorough" {
		maxPow = 21
		for k := 301; k <= 5000; k++ {
			ks = append(ks, k)
		}
	}
	for p := 9; p <= maxPow; p++ {
		ks = append(ks, 1<<p-1, 1<<p, 1<<p+1)
	}
	sizeDone := r.Parallel(uint64(len(ks))*4, func(w int, idx uint64) {
		k := ks[idx/4]
		var src string
		switch idx % 4 {
		case 0:
			src = strings.Repeat("\n", k) + "abc 12 \"s\" é1"
		case 1:
			src = "x" + strings.Repeat(" ", k) + "abc 12 \"s\" é1\n  next"
		case 2:
			src = "\"" + strings.Repeat("é", k) + "\" abc 12 é1 # c\n `r\nw` z"
		default:
			src = strings.Repeat("# c\r\n", k) + "script(global) S { x(1) }"
		}
		r.Add("far_positions", 1)
		c19Check(r, src, false)
	})
	if !sizeDone {
		r.NotExhaustive("far positions not completed")
	}
	// (f) character classes: one representative of every Unicode general category, every non-ASCII white-space rune, combining
	// marks and astral runes (plus the runes that occur as literals in the compiler's own source), singly and in pairs, in every
	// lexical context (bare, inside an identifier, after a number, in a string, in both comment kinds, in a raw string, in a
	// multi-line string), each followed by further tokens on the same line
	classRunes := dict.CategoryRunes()
	for _, r := range dict.Runes(dict.Load(repoDir())) {
		if r >= 0x80 {
			classRunes = append(classRunes, r)
		}
	}
	nR := uint64(len(classRunes))
	classCtx := []string{"%s z 1", "a%sb z", "1%s z", "\"x%sy\" z \"w\"", "# c%s\nz q", "q // %s d\nz", "`r%s` z", "\"a%s\n b\" z", "x(\"%s\") y # %s\n"}
	classDone := r.Parallel((nR+nR*nR)*uint64(len(classCtx)), func(w int, idx uint64) {
		ctx := classCtx[idx%uint64(len(classCtx))]
		x := idx / uint64(len(classCtx))
		var ins string
		if x < nR {
			ins = string(classRunes[x])
		} else {
			x -= nR
			ins = string(classRunes[x%nR]) + string(classRunes[x/nR])
		}
		r.Add("class_rune_inputs", 1)
		c19Check(r, strings.ReplaceAll(ctx, "%s", ins), true)
	})
	if !classDone {
		r.NotExhaustive("character-class inputs not completed")
	}
	r.Set("class_runes", len(classRunes))
	// (f2) runes that become an ASCII character when truncated to 8 or 16 bits: U+01xx, U+04xx, U+4Exx and U+100xx for every
	// ASCII value xx (a table or a comparison that looks at byte(ch) takes 'Р' U+0420 for a space), in the same contexts
	var aliasRunes []rune
	for b := rune(0); b < 128; b++ {
		for _, hi := range []rune{0x100, 0x400, 0x4E00, 0x10000, 0xFF00} { // (U+FFxx: the fullwidth forms of the ASCII characters)
			aliasRunes = append(aliasRunes, hi|b)
		}
	}
	aliasDone := r.Parallel(uint64(len(aliasRunes)*len(classCtx)), func(w int, idx uint64) {
		ctx := classCtx[idx%uint64(len(classCtx))]
		r.Add("alias_rune_inputs", 1)
		c19Check(r, strings.ReplaceAll(ctx, "%s", string(aliasRunes[idx/uint64(len(classCtx))])), true)
	})
	if !aliasDone {
		r.NotExhaustive("truncation-alias inputs not completed")
	}
	// (f3) a number directly followed by an identifier that starts with a non-ASCII letter: no number of the language contains
	// such a letter (digits, x and a-f A-F are ASCII), so the blank between them is dispensable - for every letter among the
	// class and alias runes, after a decimal, a hex and a negative number
	var letters []rune
	for _, cr := range append(append([]rune{}, classRunes...), aliasRunes...) {
		if cr >= 0x80 && unicode.IsLetter(cr) {
			letters = append(letters, cr)
		}
	}
	nums := []string{"5", "0x1F", "-1", "0xa"}
	glueDone := r.Parallel(uint64(len(letters)*len(nums)), func(w int, idx uint64) {
		id, num := string(letters[idx/uint64(len(nums))])+"b1", nums[idx%uint64(len(nums))]
		spaced, tight := "x "+num+" "+id+" z", "x "+num+id+" z"
		a, pa := lexAll(spaced)
		b, pb := lexAll(tight)
		r.Add("evaluations", 1)
		r.Add("tight_layout_comparisons", 1)
		if !pa && !pb && !sameSeq(a, b) {
			r.Report(harness.Violation{Sig: "C19:layout:tight:number-before-letter", Summary: fmt.Sprintf("input %q: written without the dispensable blank (%q) the token sequence changes: %s => %s", spaced, tight, seqString(a), seqString(b)), Replay: map[string]interface{}{"input": spaced, "variant": tight},
				Recheck: func() bool {
					a2, _ := lexAll(spaced)
					b2, _ := lexAll(tight)
					return !sameSeq(a2, b2)
				}})
		}
	})
	if !glueDone {
		r.NotExhaustive("number-before-letter inputs not completed")
	}
	r.Set("non_ascii_letters", len(letters))
	// (c) compiled output unchanged under layout changes (corpus of C16)
	for _, prog := range c16Corpus {
		toks := c16Parse(prog.text)
		opts := comp.Opts{Optimize: true}
		if prog.cfg {
			opts.Cmd = autoCfg
		}
		base, _, _, _ := c16Render(toks, 0, nil)
		ref := comp.Compile(base, opts)
		if ref.Err != nil {
			r.Note("corpus program %s rejected: %v", prog.name, ref.Err)
			continue
		}
		G := len(toks) - 1
		r.Parallel(uint64(G*len(c19Seps)+3), func(w int, idx uint64) {
			var src string
			if idx < 3 {
				src, _, _, _ = c16Render(toks, int(idx), nil)
			} else {
				g, s := int(idx-3)/len(c19Seps), int(idx-3)%len(c19Seps)
				src, _, _, _ = c16Render(toks, 2, map[int]string{g: c19Seps[s]})
			}
			res := comp.Compile(src, opts)
			r.Add("evaluations", 1)
			r.Add("compiled_layout_variants", 1)
			r.Add("nontrivial", 1)
			if res.Err != nil || res.Out != ref.Out {
				r.Report(harness.Violation{Sig: "C19:compiled-output-changed", Summary: fmt.Sprintf("program %s: a layout change altered the compiled output (%v): %s\n  source: %q", prog.name, res.Err, firstDiff(res.Out, ref.Out), clip(src, 500)), Replay: map[string]interface{}{"source": src, "reference_source": base}})
			}
		})
	}
	// (e) the same clause over the control-flow program families: each program rewritten on one line, with one token
	// group per line, and with a comment and CRLF at every line end must compile to the same output
	plans, swN := liftPlans(tier)
	forEachEngineProgram(r, plans, swN, func(w int, p engineProgram) {
		src := model.Print([]*model.Script{p.Script})
		ref := comp.Compile(src, comp.Opts{Optimize: true})
		if ref.Err != nil || ref.Panic != "" {
			return
		}
		variants := []string{
			oneLine(src),
			strings.Join(strings.Fields(src), "\n") + "\n",
			strings.ReplaceAll(src, "\n", " # c\r\n"),
			strings.ReplaceAll(strings.ReplaceAll(src, "\t", "  "), "\n", "\n\n// c\n"),
			tightLayout(src),
		}
		for vi, v := range variants {
			res := comp.Compile(v, comp.Opts{Optimize: true})
			r.Add("evaluations", 1)
			r.Add("family_layout_variants", 1)
			r.Add("nontrivial", 1)
			if res.Err != nil || res.Panic != "" || res.Out != ref.Out {
				v2 := v
				r.Report(harness.Violation{Sig: fmt.Sprintf("C19:family-output-changed:variant%d", vi), Summary: fmt.Sprintf("%s: layout variant %d altered the compiled output (%v %s): %s\n  source: %q", p.Desc, vi, res.Err, firstLine(res.Panic), firstDiff(res.Out, ref.Out), clip(v, 500)), Replay: map[string]interface{}{"source": v, "reference_source": src},
					Recheck: func() bool { return comp.Compile(v2, comp.Opts{Optimize: true}).Out != ref.Out }})
			}
		}
	})
	// ... and over the data families (files without raw blocks; a const definition keeps its own line)
	forEachDataFamilyFile(r, tier, func(fp *fileProgram) {
		if strings.Contains(fp.Src, "`") {
			return
		}
		o := fp.Opts
		o.Optimize, o.LineMarkers, o.Path = true, false, ""
		ref := comp.Compile(fp.Src, o)
		if ref.Err != nil || ref.Panic != "" {
			return
		}
		variants := []string{
			strings.ReplaceAll(fp.Src, "\n", " # c\r\n"),
			strings.ReplaceAll(strings.ReplaceAll(fp.Src, "\t", "  "), "\n", "\n\n// c\n"),
			tightLayout(fp.Src),
		}
		if one := oneLine(fp.Src); strings.Count(one, "const ") == strings.Count(fp.Src, "const ") && !strings.Contains(one[strings.LastIndex(one, "\n")+1:], "const ") {
			constInBody := false
			for _, l := range strings.Split(strings.TrimRight(one, "\n"), "\n") {
				if !strings.HasPrefix(l, "const ") && strings.Contains(l, " const ") {
					constInBody = true
				}
			}
			if !constInBody {
				variants = append(variants, one)
			}
		}
		for vi, v := range variants {
			res := comp.Compile(v, o)
			r.Add("evaluations", 1)
			r.Add("data_family_layout_variants", 1)
			r.Add("nontrivial", 1)
			if res.Err != nil || res.Panic != "" || res.Out != ref.Out {
				r.Report(harness.Violation{Sig: fmt.Sprintf("C19:data-family-output-changed:variant%d", vi), Summary: fmt.Sprintf("%s: layout variant %d altered the compiled output (%v %s): %s\n  source: %q", fp.Desc, vi, res.Err, firstLine(res.Panic), firstDiff(res.Out, ref.Out), clip(v, 500)), Replay: map[string]interface{}{"source": v, "reference_source": fp.Src}})
			}
		}
	})
	r.Set("separators", c19Seps)
	r.Assume("a token's lexeme is its literal, except STRING (from the opening quote to the closing quote of its last part) and RAWSTRING (backtick to backtick)",
		"gaps are taken between tokens as the lexer itself reports them; a string-type prefix and the quote after it are one lexical unit; the white space and comments between the parts of a multi-part string are inside one token",
		"inputs on which the lexer panics are counted and left to C18")
	return r.Finish(r.Get("evaluations"), r.Get("nontrivial"),
		"(a) every string of <= N characters over 20 characters (letters incl. multi-byte, a multi-byte non-letter, ASCII and non-ASCII digits, x, -, quote, backtick, space, tab, LF, CR, #, /, =, !, (, :); (b) every sequence of <= M lexemes from a 65-lexeme alphabet (all keywords, identifiers, numbers incl. hex/negative/leading zero, strings, typed string, raw string, every operator and delimiter, illegal characters) in 5 layouts; each input: position oracle on every token, then every gap replaced by each of 13 separators (spaces, tab, LF, CRLF, blank line, # and // comments, runs of several comment lines with indentation, comments whose text ends in a backslash) and re-lexed; (c) C16's corpus programs compiled under every single-gap layout change; (d) tokens after K lines / K one-byte / K two-byte characters for every K <= 300 (thorough 5000) and around every power of two up to 2^17 (thorough 2^21); (e) every program of the control-flow families (C01 / C03 / C04 bounds) rewritten on one line, one token group per line, with a comment and CRLF at each line end, with blank and comment lines between all lines, and with every dispensable white space removed, compiled and compared, and the same for the data families (C06 hoisting files, C08 mapscripts statements, file-level programs, reduced bounds); (f) one representative of every Unicode general category, every non-ASCII white-space rune, combining marks, astral runes and the runes of the compiler's own source, singly and in pairs, in 9 lexical contexts, plus the 640 runes U+01xx, U+04xx, U+4Exx, U+100xx, U+FFxx whose low byte is an ASCII character (the last plane: the fullwidth forms), plus every non-ASCII letter among all these runes directly after a decimal, hex and negative number (the blank is dispensable); non-trivial = >= 2 tokens and a line break or multi-byte character")
}

// tightLayout removes every piece of white space that is not needed to keep two word-like tokens apart
// (const definitions keep their own line: their value ends at the newline). String literals and raw
// blocks are copied verbatim; the source must not contain comments.
func tightLayout(src string) string {
	var out strings.Builder
	isWord := func(r rune) bool {
		return r == '_' || r >= 0x80 || (r >= '0' && r <= '9') || (r >= 'a' && r <= 'z') || (r >= 'A' && r <= 'Z')
	}
	lastWord := false
	pendingSpace := false
	rs := []rune(src)
	lineStart := true
	for i := 0; i < len(rs); {
		r := rs[i]
		switch {
		case r == '"' || r == '`':
			j := i + 1
			for j < len(rs) && rs[j] != r {
				if r == '"' && rs[j] == '\\' {
					j++
				}
				j++
			}
			if j < len(rs) {
				j++
			}
			out.WriteString(string(rs[i:j]))
			i = j
			lastWord, pendingSpace, lineStart = false, false, false
		case r == ' ' || r == '\t' || r == '\n' || r == '\r':
			pendingSpace = true
			if r == '\n' {
				lineStart = true
			}
			i++
		default:
			if lineStart && strings.HasPrefix(string(rs[i:]), "const ") {
				// copy the definition line verbatim, on a line of its own
				j := i
				for j < len(rs) && rs[j] != '\n' {
					j++
				}
				if out.Len() > 0 {
					out.WriteByte('\n')
				}
				out.WriteString(string(rs[i:j]))
				out.WriteByte('\n')
				i = j
				lastWord, pendingSpace = false, false
				continue
			}
			lineStart = false
			w := isWord(r) || (r == '-' && i+1 < len(rs) && rs[i+1] >= '0' && rs[i+1] <= '9')
			if w && lastWord && pendingSpace {
				out.WriteByte(' ')
			}
			// a '-' that starts a number must stay apart from a preceding word or number
			if r == '-' && lastWord {
				out.WriteByte(' ')
			}
			out.WriteRune(r)
			lastWord = isWord(r)
			pendingSpace = false
			i++
		}
	}
	out.WriteByte('\n')
	return out.String()
}

func c19Delimiter(l string) bool {
	return len(l) == 1 && strings.Contains("(){}[],:", l)
}

func c19ClosedRaw(l string) bool {
	return len(l) >= 2 && l[0] == '`' && l[len(l)-1] == '`'
}
