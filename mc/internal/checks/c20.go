package checks

import (
	"fmt"
	"regexp"
	"strings"
	"time"

	"pmc/internal/comp"
	"pmc/internal/harness"
	"pmc/internal/model"
)

// C20 — ill-formed control flow and name clashes are rejected at the offending line.

func init() { register(&Check{ID: "C20", Run: runC20}) }

type c20Wrap struct {
	name        string
	open, close []string
	loop, brk   bool
	single      bool // body must be a single statement (poryswitch colon case)
}

var c20Wraps = []c20Wrap{
	{name: "if", open: []string{"if (flag(F@)) {"}, close: []string{"}"}},
	{name: "else", open: []string{"if (flag(F@)) {", "e@", "} else {"}, close: []string{"}"}},
	{name: "elif", open: []string{"if (flag(F@)) {", "e@", "} elif (var(V@) > 1) {"}, close: []string{"}"}},
	{name: "while", open: []string{"while (flag(W@)) {"}, close: []string{"}"}, loop: true, brk: true},
	{name: "whileinf", open: []string{"while {"}, close: []string{"}"}, loop: true, brk: true},
	{name: "dowhile", open: []string{"do {"}, close: []string{"} while (flag(D@))"}, loop: true, brk: true},
	{name: "case", open: []string{"switch (var(S@)) {", "case 7:"}, close: []string{"case 8:", "k@", "}"}, brk: true},
	{name: "default", open: []string{"switch (var(S@)) {", "case 7:", "k@", "default:"}, close: []string{"}"}, brk: true},
	{name: "porybrace", open: []string{"poryswitch(PV) {", "SEL {"}, close: []string{"}", "_: o@", "}"}},
	{name: "porycolon", open: []string{"poryswitch(PV) {", "_: o@"}, close: []string{"}"}, single: true},
}

type c20Root struct {
	name        string
	open, close []string
}

var c20Roots = []c20Root{
	{"script", []string{"script S {", "first"}, []string{"last", "}"}},
	{"inline-mapscript", []string{"mapscripts M {", "ON_LOAD {"}, []string{"}", "}"}},
	{"table-inline-script", []string{"mapscripts M {", "ON_FRAME [", "VAR_A, 1 {"}, []string{"}", "]", "}"}},
}

type c20Inj struct {
	name     string
	lines    []string
	errLine  int  // index into lines of the offending construct
	needLoop bool // legal when a loop encloses it
	needBrk  bool // legal when a loop or switch encloses it
	multi    bool // more than one statement
}

var c20Injs = []c20Inj{
	{name: "break", lines: []string{"break"}, needBrk: true},
	{name: "break-after-closed-loop", lines: []string{"while (flag(Q)) {", "q", "}", "break"}, errLine: 3, needBrk: true, multi: true},
	{name: "break-after-closed-switch", lines: []string{"switch (var(Q)) {", "case 1:", "q", "}", "break"}, errLine: 4, needBrk: true, multi: true},
	{name: "break-after-closed-dowhile", lines: []string{"do {", "q", "} while (flag(Q))", "break"}, errLine: 3, needBrk: true, multi: true},
	{name: "continue", lines: []string{"continue"}, needLoop: true},
	{name: "continue-after-closed-loop", lines: []string{"while (flag(Q)) {", "q", "}", "continue"}, errLine: 3, needLoop: true, multi: true},
	{name: "continue-in-closed-switch", lines: []string{"switch (var(Q)) {", "case 1:", "continue", "}"}, errLine: 2, needLoop: true},
	{name: "continue-not-last", lines: []string{"continue", "after"}, multi: true},
	{name: "continue-not-last-in-if", lines: []string{"if (flag(Q)) {", "continue", "after", "}"}, errLine: 1},
	// what follows the misplaced continue: a label (looks like a poryswitch case head), a scoped label, a compound, a keyword statement
	{name: "continue-not-last-before-label", lines: []string{"continue", "AfterL:"}, multi: true},
	{name: "continue-not-last-before-label-and-command", lines: []string{"continue", "AfterL:", "after"}, multi: true},
	{name: "continue-not-last-before-scoped-label", lines: []string{"continue", "AfterL(global):"}, multi: true},
	{name: "continue-not-last-before-if", lines: []string{"continue", "if (flag(Q)) {", "after", "}"}, multi: true},
	{name: "continue-not-last-before-break", lines: []string{"continue", "break"}, multi: true},
	{name: "continue-not-last-before-end", lines: []string{"continue", "end"}, multi: true},
	{name: "continue-not-last-before-label-in-if", lines: []string{"if (flag(Q)) {", "continue", "AfterL:", "}"}, errLine: 1},
	// a continue that is last in a poryswitch case but not last in the enclosing block (after selection it is an ordinary misplaced continue)
	{name: "continue-last-in-poryswitch-case-not-last-in-block", lines: []string{"poryswitch(PV) {", "SEL {", "continue", "}", "_ { o }", "}", "after"}, errLine: 2, multi: true},
	{name: "continue-last-in-poryswitch-default-case-not-last-in-block", lines: []string{"poryswitch(PV) {", "NOPE { o }", "_ {", "q", "continue", "}", "}", "AfterL:", "after"}, errLine: 4, multi: true},
	{name: "continue-last-in-nested-poryswitch-case-not-last-in-block", lines: []string{"poryswitch(PV) {", "SEL {", "poryswitch(PV) {", "SEL {", "continue", "}", "}", "}", "}", "after"}, errLine: 4, multi: true},
	// a misplaced continue after a poryswitch whose colon-form case holds a nested poryswitch with empty cases (nothing a
	// colon-form case sets up may outlive the case)
	{name: "continue-not-last-after-colon-case-with-empty-nested-poryswitch", lines: []string{"poryswitch(PV) {", "NOPE: o", "_: poryswitch(PV) {", "NOPE2 {", "}", "_ {", "}", "}", "}", "while (flag(Q)) {", "q", "continue", "after", "}"}, errLine: 11, multi: true},
	{name: "duplicate-case-after-nested-switch", lines: []string{"switch (var(Q)) {", "case 1:", "switch (var(R)) {", "case 7:", "q", "}", "case 2:", "r", "case 1:", "s", "}"}, errLine: 8, multi: true},
	{name: "duplicate-case-after-nested-switch-with-the-same-value", lines: []string{"switch (var(Q)) {", "case 1:", "switch (var(R)) {", "case 1:", "q", "default:", "q2", "}", "case 1:", "s", "}"}, errLine: 8, multi: true},
	{name: "second-default-after-nested-switch-with-default", lines: []string{"switch (var(Q)) {", "default:", "switch (var(R)) {", "default:", "q", "}", "case 2:", "r", "default:", "s", "}"}, errLine: 8, multi: true},
	{name: "continue-before-jumped-to-label-after-colon-case-with-empty-nested-poryswitch", lines: []string{"poryswitch(PV) {", "NOPE: o", "_: poryswitch(PV) {", "NOPE2 {", "}", "_ {", "}", "}", "}", "while (flag(Q)) {", "if (flag(H)) {", "goto(AfterL)", "}", "continue", "AfterL:", "after", "}"}, errLine: 13, multi: true},
	{name: "continue-before-jumped-to-label", lines: []string{"while (flag(Q)) {", "if (flag(H)) {", "goto(AfterL)", "}", "continue", "AfterL:", "after", "}"}, errLine: 4, multi: true},
	{name: "continue-not-last-after-colon-case-continue", lines: []string{"while (flag(Q0)) {", "poryswitch(PV) {", "NOPE: o", "_: continue", "}", "}", "while (flag(Q)) {", "q", "continue", "after", "}"}, errLine: 8, multi: true},
	{name: "continue-last-in-if-in-poryswitch-case-is-legal-shape", lines: []string{"poryswitch(PV) {", "SEL {", "continue", "after", "}", "}"}, errLine: 2, multi: true},
	{name: "duplicate-case", lines: []string{"switch (var(Q)) {", "case 1:", "q", "case 2:", "case 1:", "r", "}"}, errLine: 4},
	{name: "duplicate-case-adjacent", lines: []string{"switch (var(Q)) {", "case 3:", "case 3:", "r", "}"}, errLine: 2},
	{name: "duplicate-case-via-const", lines: []string{"switch (var(Q)) {", "case 1:", "q", "case CONE:", "r", "}"}, errLine: 3},
	{name: "duplicate-case-multitoken", lines: []string{"switch (var(Q)) {", "case A + 1:", "q", "default:", "case A + 1:", "}"}, errLine: 4},
	{name: "second-default", lines: []string{"switch (var(Q)) {", "default:", "q", "case 1:", "r", "default:", "s", "}"}, errLine: 5},
	{name: "second-default-adjacent", lines: []string{"switch (var(Q)) {", "default:", "default:", "s", "}"}, errLine: 2},
}

// closed compounds: every loop / switch nested in every loop / switch, closed before a stray break or continue
// (exercises the unwinding of the break and continue bookkeeping of closed constructs)
func init() {
	type shape struct {
		name        string
		open, close []string
	}
	outers := []shape{
		{"while", []string{"while (flag(QA)) {"}, []string{"}"}},
		{"dowhile", []string{"do {"}, []string{"} while (flag(QA))"}},
		{"switch", []string{"switch (var(QA)) {", "case 1:"}, []string{"}"}},
		{"if", []string{"if (flag(QA)) {"}, []string{"}"}},
	}
	inners := []shape{
		{"while", []string{"while (flag(QB)) {", "q"}, []string{"}"}},
		{"dowhile", []string{"do {", "q"}, []string{"} while (flag(QB))"}},
		{"switch", []string{"switch (var(QB)) {", "case 2:", "q"}, []string{"}"}},
		{"whileinf", []string{"while {", "q", "break"}, []string{"}"}},
	}
	for _, o := range outers {
		for _, in := range inners {
			var lines []string
			lines = append(lines, o.open...)
			lines = append(lines, in.open...)
			lines = append(lines, in.close...)
			lines = append(lines, o.close...)
			n := len(lines)
			c20Injs = append(c20Injs,
				c20Inj{name: "break-after-closed-" + o.name + "-with-" + in.name, lines: append(append([]string{}, lines...), "break"), errLine: n, needBrk: true, multi: true},
				c20Inj{name: "continue-after-closed-" + o.name + "-with-" + in.name, lines: append(append([]string{}, lines...), "continue"), errLine: n, needLoop: true, multi: true})
		}
	}
}

func c20Build(root c20Root, chain []int, inj c20Inj) (src string, errLine int, legal bool, ok bool) {
	lines := []string{"const CONE = 1"}
	lines = append(lines, root.open...)
	loop, brk := false, false
	for d, wi := range chain {
		w := c20Wraps[wi]
		if w.single && (d != len(chain)-1 || inj.multi) {
			return "", 0, false, false
		}
		for _, l := range w.open {
			lines = append(lines, strings.ReplaceAll(l, "@", fmt.Sprint(d)))
		}
		loop = loop || w.loop
		brk = brk || w.brk
	}
	// The poryswitch colon case puts its statement on the case's own line.
	if len(chain) > 0 && c20Wraps[chain[len(chain)-1]].single {
		if len(inj.lines) == 1 {
			lines[len(lines)-1] = "_: o" + fmt.Sprint(len(chain)-1)
			lines = append(lines, "SEL: "+inj.lines[0])
			errLine = len(lines)
		} else {
			lines = append(lines, "SEL: "+inj.lines[0])
			start := len(lines)
			lines = append(lines, inj.lines[1:]...)
			errLine = start + inj.errLine
		}
	} else {
		start := len(lines)
		lines = append(lines, inj.lines...)
		errLine = start + inj.errLine + 1
	}
	for d := len(chain) - 1; d >= 0; d-- {
		for _, l := range c20Wraps[chain[d]].close {
			lines = append(lines, strings.ReplaceAll(l, "@", fmt.Sprint(d)))
		}
	}
	lines = append(lines, root.close...)
	legal = (inj.needLoop && loop) || (inj.needBrk && brk)
	return strings.Join(lines, "\n") + "\n", errLine, legal, true
}

func runC20(tier string) int {
	r := harness.NewRun("C20", "exploration", tier, budget(tier, 50*time.Second, 10*time.Minute))
	maxDepth := 4
	if tier == "thorough" {
		maxDepth = 5
	}
	// all chains of depth <= maxDepth
	var chains [][]int
	var gen func(cur []int)
	gen = func(cur []int) {
		chains = append(chains, append([]int{}, cur...))
		if len(cur) == maxDepth {
			return
		}
		for w := range c20Wraps {
			gen(append(cur, w))
		}
	}
	gen(nil)
	sw := map[string]string{"PV": "SEL"}
	total := uint64(len(chains) * len(c20Roots) * len(c20Injs))
	done := r.Parallel(total, func(w int, idx uint64) {
		inj := c20Injs[idx%uint64(len(c20Injs))]
		x := idx / uint64(len(c20Injs))
		root := c20Roots[x%uint64(len(c20Roots))]
		chain := chains[x/uint64(len(c20Roots))]
		src, errLine, legal, ok := c20Build(root, chain, inj)
		if !ok {
			return
		}
		for _, opt := range []bool{true, false} {
			res := comp.Compile(src, comp.Opts{Optimize: opt, Switches: sw})
			r.Add("evaluations", 1)
			if res.Panic != "" {
				r.Report(harness.Violation{Sig: "C20:panic", Summary: "compiler panic: " + firstLine(res.Panic) + fmt.Sprintf("\n  source: %q", src), Replay: map[string]interface{}{"source": src}})
				continue
			}
			if legal {
				// the dual (legal placements are accepted) is only counted, not judged
				if res.Err == nil {
					r.Add("legal_placements_accepted", 1)
				} else {
					r.Add("legal_placements_rejected", 1)
				}
				continue
			}
			r.Add("ill_formed_programs", 1)
			r.Add("nontrivial", 1)
			c20Judge(r, "control:"+inj.name, src, errLine, res, opt, sw)
		}
	})
	// the size dimension: chains of depth D for every D up to a bound (one wrapper kind repeated, and all kinds
	// rotating), every injection at the bottom
	maxD := 40
	if tier == "thorough" {
		maxD = 120
	}
	type deepJob struct{ d, pat int }
	var deep []deepJob
	for d := maxDepth + 1; d <= maxD; d++ {
		for pat := 0; pat <= len(c20Wraps); pat++ {
			deep = append(deep, deepJob{d, pat})
		}
	}
	deepDone := r.Parallel(uint64(len(deep)*len(c20Injs)), func(w int, idx uint64) {
		inj := c20Injs[idx%uint64(len(c20Injs))]
		j := deep[idx/uint64(len(c20Injs))]
		chain := make([]int, j.d)
		for i := range chain {
			if j.pat == len(c20Wraps) {
				chain[i] = (i * 3) % len(c20Wraps)
				if c20Wraps[chain[i]].single {
					chain[i] = 0
				}
			} else {
				chain[i] = j.pat
			}
		}
		src, errLine, legal, ok := c20Build(c20Roots[0], chain, inj)
		if !ok {
			return
		}
		res := comp.Compile(src, comp.Opts{Optimize: true, Switches: sw})
		r.Add("evaluations", 1)
		r.Add("deep_chain_programs", 1)
		if res.Panic != "" {
			r.Report(harness.Violation{Sig: "C20:panic", Summary: "compiler panic: " + firstLine(res.Panic) + fmt.Sprintf("\n  source: %q", clip(src, 400)), Replay: map[string]interface{}{"source": src}})
			return
		}
		if legal {
			return
		}
		r.Add("ill_formed_programs", 1)
		r.Add("nontrivial", 1)
		c20Judge(r, "control:"+inj.name, src, errLine, res, true, sw)
	})
	if !done || !deepDone {
		r.NotExhaustive("chain enumeration not completed")
	}
	r.Set("deep_chain_max_depth", maxD)
	c20TopLevel(r)
	c20LabelPlacements(r)
	r.Set("max_chain_depth", maxDepth)
	r.Set("chains", len(chains))
	r.Set("injections", len(c20Injs))
	r.Assume("one statement per line, so the reported start line identifies the offending construct",
		"offending construct: the break / continue, the second case with the same value, the second default, the second const, the user text / movement statement, the label")
	return r.Finish(r.Get("evaluations"), r.Get("nontrivial"),
		"every nesting chain of depth <= d over {if, else, elif, while, infinite while, do...while, switch case, default, poryswitch brace / colon case} under 3 roots (script, inline map script, table inline script) x 59 injections, plus chains of every depth up to the deep-chain bound in the coverage (each wrapper kind repeated, and all kinds rotating) (break / continue outside their scopes incl. after every closed loop / switch / if that contains another loop or switch, continue not last, duplicate case value incl. via a constant and multi-token, second default) + redefined constants (first value a number, the constant's own name, another constant, an unknown name, an expression; 3 placements of the second definition; constant cycles), text / movement names equal to generated ones, script labels equal to every generated label of the renamed program and to text labels, the former also for every placement of the label (directly and inside every kind of block, in live code and after end / return / break / goto / an infinite loop); non-trivial = the program is ill-formed (an error is required)")
}

// c20LabelPlacements: the label clash clause over every placement of a label: the dead-label programs of C04 put a
// label (and gotos to it) directly and inside every kind of block, after end / return / break / goto / an infinite
// loop and in shared switch bodies. The label is renamed to every generated label of the same program in turn.
func c20LabelPlacements(r *harness.Run) {
	progs := deadLabelPrograms()
	done := r.Parallel(uint64(len(progs)), func(w int, pi uint64) {
		base := model.Print([]*model.Script{progs[pi]})
		rename := func(to string) string {
			return regexp.MustCompile(`\bL1\b`).ReplaceAllString(base, to)
		}
		for _, opt := range []bool{true, false} {
			renamed := comp.Compile(rename("Renamed"), comp.Opts{Optimize: opt})
			if renamed.Err != nil || renamed.Panic != "" {
				continue
			}
			for _, l := range asmLines(renamed.Out) {
				if !l.isLabel || !strings.HasPrefix(l.name, "S_") {
					continue
				}
				src := rename(l.name)
				labelLine := 0
				for i, line := range strings.Split(src, "\n") {
					if strings.TrimSpace(line) == l.name+":" {
						labelLine = i + 1
					}
				}
				res := comp.Compile(src, comp.Opts{Optimize: opt})
				r.Add("evaluations", 1)
				r.Add("nontrivial", 1)
				r.Add("ill_formed_programs", 1)
				r.Add("label_placement_clash_programs", 1)
				c20Judge(r, "label-equals-generated:placement", src, labelLine, res, opt, nil)
			}
		}
	})
	if !done {
		r.NotExhaustive("label placements not completed")
	}
}

func c20Judge(r *harness.Run, what, src string, errLine int, res comp.Result, opt bool, sw map[string]string) {
	report := func(sig, msg string) {
		r.Report(harness.Violation{Sig: sig, Summary: fmt.Sprintf("%s: %s\n  source: %q", what, msg, clip(src, 600)), Replay: map[string]interface{}{"source": src, "optimize": opt, "switches": sw, "expected_error_line": errLine, "error": fmt.Sprint(res.Err), "output": res.Out},
			Recheck: func() bool {
				r2 := comp.Compile(src, comp.Opts{Optimize: opt, Switches: sw})
				return fmt.Sprint(r2.Err) == fmt.Sprint(res.Err) && r2.Out == res.Out
			}})
	}
	if res.Err == nil {
		report("C20:accepted:"+what, "ill-formed program was compiled into something")
		return
	}
	pe, ok := res.ParseErr()
	if !ok {
		report("C20:unlocated:"+what, "error carries no location: "+res.Err.Error())
		return
	}
	if pe.LineNumberStart != errLine {
		report("C20:wrong-line:"+what, fmt.Sprintf("error %q reported on line %d, the offending construct is on line %d", res.Err.Error(), pe.LineNumberStart, errLine))
	} else if r.WantSample() && strings.Count(src, "\n") > 12 {
		r.Sample(map[string]interface{}{"injection": what, "source": src, "error": res.Err.Error(), "expected_error_line": errLine})
	}
}

func c20TopLevel(r *harness.Run) {
	type tc struct {
		what    string
		src     string
		errLine int
	}
	var cases []tc
	// redefined constants
	cases = append(cases,
		tc{"const-redefined", "const A = 1\nconst B = 2\nconst A = 3\nscript S {\n\tx(A)\n}\n", 3},
		tc{"const-redefined", "const A = 1\nscript S {\n\tx(A)\n}\nconst A = 1\n", 5},
		tc{"const-redefined", "const A = 1\nconst B = A\nconst B = A\n", 3},
	)
	// ... systematically: the first value of A is a number, A's own name, another constant (defined before or after), an unknown
	// name or an expression mentioning A; the second definition gives any value and stands directly after the first, after
	// a script that uses A, or after further constants; a constant cycle counts as defined, too
	for _, first := range []string{"1", "A", "B", "XYZ", "A + 1", "( A )", "0x4002"} {
		for _, pre := range []string{"", "const B = 2\n", "const B = A\n"} {
			for _, second := range []string{"3", "A", "B", first} {
				head := pre + "const A = " + first + "\n"
				n := strings.Count(head, "\n")
				cases = append(cases,
					tc{"const-redefined", head + "const A = " + second + "\nscript S {\n\tx(A)\n}\n", n + 1},
					tc{"const-redefined", head + "script S {\n\tx(A)\n}\nconst A = " + second + "\nscript S2 {\n\ty(A)\n}\n", n + 4},
					tc{"const-redefined", head + "const C = A\nconst D = C\nconst A = " + second + "\n", n + 3},
				)
			}
		}
	}
	cases = append(cases,
		tc{"const-redefined", "const A = B\nconst B = A\nconst B = 3\nscript S {\n\tx(B)\n}\n", 3},
		tc{"const-redefined", "const A = B\nconst B = A\nconst A = 3\n", 3},
	)
	// text / movement named like a generated label
	// (script names that themselves contain the infixes of generated names, or end in digits, included)
	for _, owner := range []string{"S", "M_ON_LOAD", "M_ON_FRAME_0", "A_Text_B", "A_Text_0", "A_Movement_1", "S_Text_0_Text_1", "S_9", "É_Text_é"} {
		var script string
		switch owner {
		default:
			script = "script " + owner + " {\n\tmsgbox(\"hi\")\n\tapplymovement(1, moves(u))\n\tmsgbox(\"yo\")\n}\n"
		case "M_ON_LOAD":
			script = "mapscripts M {\n\tON_LOAD {\n\t\tmsgbox(\"hi\")\n\t\tapplymovement(1, moves(u))\n\t\tmsgbox(\"yo\")\n\t}\n}\n"
		case "M_ON_FRAME_0":
			script = "mapscripts M {\n\tON_FRAME [\n\t\tVAR_A, 1 {\n\t\t\tmsgbox(\"hi\")\n\t\t\tapplymovement(1, moves(u))\n\t\t\tmsgbox(\"yo\")\n\t\t}\n\t]\n}\n"
		}
		n := strings.Count(script, "\n")
		for _, name := range []string{owner + "_Text_0", owner + "_Text_1"} {
			user := "text " + name + " {\n\t\"user\"\n}\n"
			cases = append(cases, tc{"text-named-like-generated", script + user, n + 1}, tc{"text-named-like-generated", user + script, 1})
		}
		user := "movement " + owner + "_Movement_0 {\n\tw\n}\n"
		cases = append(cases, tc{"movement-named-like-generated", script + user, n + 1}, tc{"movement-named-like-generated", user + script, 1})
	}
	// two user texts / movements with the same name
	cases = append(cases,
		tc{"text-duplicate", "text T {\n\t\"a\"\n}\ntext T {\n\t\"b\"\n}\n", 4},
	)
	for _, c := range cases {
		for _, opt := range []bool{true, false} {
			res := comp.Compile(c.src, comp.Opts{Optimize: opt})
			r.Add("evaluations", 1)
			r.Add("nontrivial", 1)
			r.Add("ill_formed_programs", 1)
			r.Add("name_clash_programs", 1)
			c20Judge(r, c.what, c.src, c.errLine, res, opt, nil)
		}
	}
	// script label equal to a generated sub-label that occurs in the output of the renamed program, or to a text label
	bodies := []string{
		"script S {\n\tif (flag(A)) {\n\t\tx\n\t}\n\t@:\n\ty\n\twhile (var(V) < 2) {\n\t\tmsgbox(\"hi\")\n\t\tif (flag(B)) {\n\t\t\tbreak\n\t\t}\n\t}\n\tswitch (var(W)) {\n\t\tcase 1:\n\t\t\tz\n\t\tdefault:\n\t\t\tw\n\t}\n}\ntext T {\n\t\"t\"\n}\n",
		"script S {\n\tdo {\n\t\t@(global):\n\t\tif (flag(A) && flag(B) || flag(C)) {\n\t\t\tx\n\t\t}\n\t} while (var(V) == 1)\n\tmsgbox(\"hi\")\n}\ntext T {\n\t\"t\"\n}\n",
		"mapscripts M {\n\tON_LOAD {\n\t\tif (flag(A)) {\n\t\t\tx\n\t\t} else {\n\t\t\tmsgbox(\"hi\")\n\t\t}\n\t\t@:\n\t\ty\n\t}\n}\ntext T {\n\t\"t\"\n}\n",
	}
	bodies = append(bodies,
		"mapscripts M {\n\tON_RESUME: Sx\n\tON_FRAME [\n\t\tVAR_A, 0: Sy\n\t\tVAR_A, 1 {\n\t\t\tif (flag(A)) {\n\t\t\t\tx\n\t\t\t}\n\t\t\t@:\n\t\t\tmsgbox(\"hi\")\n\t\t}\n\t\tVAR_A, 2 {\n\t\t\twhile (flag(B)) {\n\t\t\t\ty\n\t\t\t}\n\t\t}\n\t]\n\tON_LOAD {\n\t\tz\n\t}\n}\ntext T {\n\t\"t\"\n}\n",
		"mapscripts M {\n\tON_LOAD {\n\t\tif (flag(A)) {\n\t\t\tx\n\t\t}\n\t}\n\tON_TRANSITION {\n\t\tswitch (var(V)) {\n\t\t\tcase 1:\n\t\t\t\t@:\n\t\t\t\tmsgbox(\"hi\")\n\t\t}\n\t}\n}\ntext T {\n\t\"t\"\n}\n")
	owners := []string{"S", "S", "M_ON_LOAD", "M_ON_FRAME_1", "M_ON_TRANSITION"}
	for bi, body := range bodies {
		lines := strings.Split(body, "\n")
		labelLine := 0
		for i, l := range lines {
			if strings.Contains(l, "@") {
				labelLine = i + 1
			}
		}
		owner := owners[bi]
		for _, opt := range []bool{true, false} {
			renamed := comp.Compile(strings.ReplaceAll(body, "@", "Renamed"), comp.Opts{Optimize: opt})
			if renamed.Err != nil {
				r.Note("label base program rejected: %v", renamed.Err)
				continue
			}
			var names []string
			for _, l := range asmLines(renamed.Out) {
				if l.isLabel && l.name != "Renamed" && (l.name == owner || strings.HasPrefix(l.name, owner+"_") || l.name == "T") {
					names = append(names, l.name)
				}
			}
			for _, name := range names {
				src := strings.ReplaceAll(body, "@", name)
				res := comp.Compile(src, comp.Opts{Optimize: opt})
				r.Add("evaluations", 1)
				r.Add("nontrivial", 1)
				r.Add("ill_formed_programs", 1)
				r.Add("label_clash_programs", 1)
				c20Judge(r, "label-equals-generated-or-text", src, labelLine, res, opt, nil)
			}
		}
	}
}
