// Package checks holds one file per property.
package checks

import (
	"encoding/json"
	"fmt"
	"strings"
	"sync"
	"sync/atomic"
	"time"

	"github.com/huderlem/poryscript/lexer"
	"github.com/huderlem/poryscript/token"

	"pmc/internal/comp"
	"pmc/internal/dict"
	"pmc/internal/harness"
	"pmc/internal/machine"
	"pmc/internal/model"
)

type Check struct {
	ID     string
	Run    func(tier string) int
	Replay func(raw json.RawMessage) error
}

var Registry = map[string]*Check{}

func register(c *Check) { Registry[c.ID] = c }

func budget(tier string, quick, thorough time.Duration) time.Duration {
	if tier == "thorough" {
		return thorough
	}
	// The quick tiers are sized to finish in well under a minute on an idle machine; the budget only
	// matters on a loaded one, where it turns a slow run into a capped (exhaustive:false) one.
	if quick < 2*time.Minute {
		quick = 2 * time.Minute
	}
	return quick
}

// engineStats accumulates product-explorer statistics across programs.
type engineStats struct {
	programs, accepted, rejected int64
	states, transitions, reads   int64
	nontrivial                   int64
	fingerprints                 map[uint64]struct{} // per worker, merged at the end
}

func addStats(r *harness.Run, st machine.Stats) {
	r.Add("states", int64(st.States))
	r.Add("transitions", int64(st.Transitions))
	r.Add("env_branch_points", int64(st.Reads))
}

// engineCase is the replay payload of engine-based checks.
type engineCase struct {
	Family   string              `json:"family,omitempty"`
	N        int                 `json:"n,omitempty"`
	Index    uint64              `json:"index,omitempty"`
	Variant  int                 `json:"variant,omitempty"`
	Source   string              `json:"source"`
	Optimize bool                `json:"optimize"`
	Entry    string              `json:"entry"`
	Mode     string              `json:"mode"`
	Expected string              `json:"reference_next_event"`
	Actual   string              `json:"emitted_next_event"`
	Env      string              `json:"environment_in_failing_phase"`
	Trace    []machine.TraceStep `json:"observable_prefix"`
	Output   string              `json:"emitted_assembly"`
}

func violationSig(prefix string, v *machine.Violation) string {
	return fmt.Sprintf("%s:ref=%s/asm=%s", prefix, evClass(v.A), evClass(v.B))
}

func evClass(e machine.Event) string {
	switch e.Kind {
	case machine.EvCmd:
		return "cmd"
	case machine.EvReturn:
		return "return"
	case machine.EvEnd:
		return "end"
	case machine.EvOut:
		return "out"
	case machine.EvDiverge:
		return "diverge"
	case machine.EvRunOff:
		return "runoff"
	case machine.EvBad:
		return "bad"
	default:
		return "read"
	}
}

// checkScripts compiles the model scripts with the given optimize setting and
// explores reference x emitted from every script entry.
// It returns (accepted, stats, violation).
func checkScripts(scripts []*model.Script, src string, optimize bool, mode machine.Mode, cmd *comp.Opts) (bool, string, machine.Stats, *machine.Violation, string) {
	o := comp.Opts{Optimize: optimize}
	if cmd != nil {
		o = *cmd
		o.Optimize = optimize
	}
	res := comp.Compile(src, o)
	if res.Panic != "" {
		return true, "", machine.Stats{}, &machine.Violation{A: machine.Event{Kind: machine.EvBad, Text: "accepted"}, B: machine.Event{Kind: machine.EvBad, Text: "compiler panic: " + firstLine(res.Panic)}}, ""
	}
	if res.Err != nil {
		return false, res.Err.Error(), machine.Stats{}, nil, ""
	}
	owners := make([]string, len(scripts))
	for i, sc := range scripts {
		owners[i] = sc.Name
	}
	asm := machine.ReadAsm(res.Out, machine.ReadOpts{Owners: owners, UserLabels: model.UserLabels(scripts)})
	ref := model.Lower(scripts)
	var total machine.Stats
	for _, sc := range scripts {
		st, v := machine.Explore(ref, asm, sc.Name, sc.Name, mode)
		total.States += st.States
		total.Transitions += st.Transitions
		total.Reads += st.Reads
		total.Events += st.Events
		total.Finishes += st.Finishes
		total.Fingerprint ^= st.Fingerprint
		if v != nil {
			return true, "", total, v, res.Out
		}
	}
	return true, "", total, nil, res.Out
}

func firstLine(s string) string {
	for i := 0; i < len(s); i++ {
		if s[i] == '\n' {
			return s[:i]
		}
	}
	return s
}

var _ = atomic.AddInt64

// dictIdents returns the identifier-like literals of the compiler's own source that the real lexer reads as one
// IDENT token (keywords are excluded by the lexer itself), plus a few spellings built from them. They are used
// as names and values in the dictionary sweeps of several checks.
var dictIdentsOnce sync.Once
var dictIdentsList []string

func dictIdents() []string {
	dictIdentsOnce.Do(func() {
		seen := map[string]bool{}
		add := func(w string) {
			if seen[w] {
				return
			}
			l := lexer.New(w)
			t := l.NextToken()
			if t.Type == token.IDENT && t.Literal == w && l.NextToken().Type == token.EOF {
				seen[w] = true
				dictIdentsList = append(dictIdentsList, w)
			}
		}
		for _, w := range dict.Identifiers(dict.Load(repoDir()), 24) {
			add(w)
			add(strings.ToUpper(w))
			add(strings.ToLower(w))
			if len(w) > 1 {
				add(strings.ToUpper(w[:1]) + strings.ToLower(w[1:]))
				parts := strings.Split(strings.ToLower(w), "_")
				for i, pt := range parts {
					if pt != "" {
						parts[i] = strings.ToUpper(pt[:1]) + pt[1:]
					}
				}
				add(strings.Join(parts, "_")) // Step_End, Item_None
			}
			add(w + "_0")
			add("_" + w)
		}
	})
	return dictIdentsList
}
