package checks

// fileLevelPrograms returns multi-statement files: every ordered selection of <= 3 of 12 statements (two or three of
// each kind: scripts, texts, movements, marts, mapscripts with tables and inline scripts, raw) for the file-level checks.
func fileLevelPrograms(tier string) []*fileProgram {
	type piece struct {
		src    string
		owners []string
		data   []string
		user   []string
	}
	pieces := []piece{
		{src: "script S1 {\n\tif (flag(A)) {\n\t\tmsgbox(\"hi\")\n\t}\n\tLa:\n\tapplymovement(1, moves(walk_up walk_down))\n}\n", owners: []string{"S1"}, user: []string{"La"}},
		{src: "script S2 {\n\twhile (var(V) < 3) {\n\t\tmsgbox(\"hi\")\n\t\tif (flag(B)) {\n\t\t\tbreak\n\t\t}\n\t}\n}\n", owners: []string{"S2"}},
		{src: "text T1 {\n\t\"hello\"\n}\n", data: []string{"T1"}},
		{src: "movement M1 {\n\twalk_left * 2\n\twalk_right\n}\n", data: []string{"M1"}},
		{src: "mart Mart1 {\n\tITEM_A\n\tITEM_B\n}\n", data: []string{"Mart1"}},
		{src: "mapscripts Map1 {\n\tMAP_SCRIPT_ON_LOAD: S_ext\n\tMAP_SCRIPT_ON_RESUME {\n\t\tif (flag(C)) {\n\t\t\tmsgbox(\"hi\")\n\t\t}\n\t}\n\tMAP_SCRIPT_ON_FRAME_TABLE [\n\t\tVAR_X, 1: S_ext2\n\t\tVAR_X, 2 {\n\t\t\tlock\n\t\t\tLm:\n\t\t\trelease\n\t\t}\n\t]\n}\n",
			owners: []string{"Map1_MAP_SCRIPT_ON_RESUME", "Map1_MAP_SCRIPT_ON_FRAME_TABLE_1"}, data: []string{"Map1", "Map1_MAP_SCRIPT_ON_FRAME_TABLE"}, user: []string{"Lm"}},
		{src: "raw `\nRawData:\n\t.byte 1\n`\n", data: []string{"RawData"}},
		// a second statement of each kind (what one statement leaves behind must not reach the next of its kind)
		{src: "mapscripts Map2 {\n\tMAP_SCRIPT_ON_FRAME_TABLE [\n\t\tVAR_Y, 0 {\n\t\t\tmsgbox(\"two\")\n\t\t\tif (flag(D)) {\n\t\t\t\tq\n\t\t\t}\n\t\t}\n\t\tVAR_Y, 1: S_ext\n\t\tVAR_Y, 2 {\n\t\t\tr\n\t\t}\n\t]\n\tMAP_SCRIPT_ON_WARP_INTO_MAP_TABLE [\n\t\tVAR_Z, 0: S_ext2\n\t]\n\tMAP_SCRIPT_ON_TRANSITION {\n\t\tapplymovement(2, moves(walk_up walk_down))\n\t}\n}\n",
			owners: []string{"Map2_MAP_SCRIPT_ON_FRAME_TABLE_0", "Map2_MAP_SCRIPT_ON_FRAME_TABLE_2", "Map2_MAP_SCRIPT_ON_TRANSITION"}, data: []string{"Map2", "Map2_MAP_SCRIPT_ON_FRAME_TABLE", "Map2_MAP_SCRIPT_ON_WARP_INTO_MAP_TABLE"}},
		{src: "text T2 {\n\tascii\"hi\"\n}\n", data: []string{"T2"}},
		{src: "movement(global) M2 {\n\twalk_up\n\twalk_down\n}\n", data: []string{"M2"}},
		{src: "mart(global) Mart2 {\n\tITEM_B\n\tITEM_NONE\n\tITEM_C\n}\n", data: []string{"Mart2"}},
		{src: "script(local) S3 {\n\tswitch (var(W)) {\n\t\tcase 1:\n\t\t\tmsgbox(\"two\")\n\t\tdefault:\n\t\t\tapplymovement(3, moves(walk_left))\n\t}\n}\n", owners: []string{"S3"}},
	}
	var out []*fileProgram
	n := len(pieces)
	add := func(idx []int) {
		fp := &fileProgram{UserLabels: map[string]bool{}, DataLabels: map[string]bool{}, External: map[string]bool{"S_ext": true, "S_ext2": true}}
		for _, i := range idx {
			fp.Src += pieces[i].src + "\n"
			fp.Owners = append(fp.Owners, pieces[i].owners...)
			for _, d := range pieces[i].data {
				fp.DataLabels[d] = true
			}
			for _, u := range pieces[i].user {
				fp.UserLabels[u] = true
			}
			fp.Desc += string(rune('A' + i))
		}
		fp.Desc = "file pieces " + fp.Desc
		out = append(out, fp)
	}
	for a := 0; a < n; a++ {
		add([]int{a})
		for b := 0; b < n; b++ {
			if b == a {
				continue
			}
			add([]int{a, b})
			for c := 0; c < n; c++ {
				if c == a || c == b {
					continue
				}
				add([]int{a, b, c})
			}
		}
	}
	return out
}
