package checks

// fileLevelPrograms returns multi-statement files (script + text + movement +
// mart + mapscripts + raw in every order of <= 3 kinds) for the closure check.
func fileLevelPrograms(tier string) []*fileProgram {
	type piece struct {
		src    string
		owners []string
		data   []string
		user   []string
	}
	pieces := []piece{
		{src: "script S1 {\n\tif (flag(A)) {\n\t\tmsgbox(\"hi\")\n\t}\n\tLa:\n\tapplymovement(1, moves(walk_up walk_down))\n}\n", owners: []string{"S1"}, user: []string{"La"}},
		{src: "script S2 {\n\twhile (var(V) < 3) {\n\t\tmsgbox(\"hi\")\n\t\tif (flag(B)) {\n\t\t\tbreak\n\t\t}\n\t}\n}\n", owners: []string{"S2"}},
		{src: "text T1 {\n\t\"hello\"\n}\n", data: []string{"T1"}},
		{src: "movement M1 {\n\twalk_left * 2\n\twalk_right\n}\n", data: []string{"M1"}},
		{src: "mart Mart1 {\n\tITEM_A\n\tITEM_B\n}\n", data: []string{"Mart1"}},
		{src: "mapscripts Map1 {\n\tMAP_SCRIPT_ON_LOAD: S_ext\n\tMAP_SCRIPT_ON_RESUME {\n\t\tif (flag(C)) {\n\t\t\tmsgbox(\"hi\")\n\t\t}\n\t}\n\tMAP_SCRIPT_ON_FRAME_TABLE [\n\t\tVAR_X, 1: S_ext2\n\t\tVAR_X, 2 {\n\t\t\tlock\n\t\t\tLm:\n\t\t\trelease\n\t\t}\n\t]\n}\n",
			owners: []string{"Map1_MAP_SCRIPT_ON_RESUME", "Map1_MAP_SCRIPT_ON_FRAME_TABLE_1"}, data: []string{"Map1", "Map1_MAP_SCRIPT_ON_FRAME_TABLE"}, user: []string{"Lm"}},
		{src: "raw `\nRawData:\n\t.byte 1\n`\n", data: []string{"RawData"}},
	}
	var out []*fileProgram
	n := len(pieces)
	add := func(idx []int) {
		fp := &fileProgram{UserLabels: map[string]bool{}, DataLabels: map[string]bool{}, External: map[string]bool{"S_ext": true, "S_ext2": true}}
		for _, i := range idx {
			fp.Src += pieces[i].src + "\n"
			fp.Owners = append(fp.Owners, pieces[i].owners...)
			for _, d := range pieces[i].data {
				fp.DataLabels[d] = true
			}
			for _, u := range pieces[i].user {
				fp.UserLabels[u] = true
			}
			fp.Desc += string(rune('A' + i))
		}
		fp.Desc = "file pieces " + fp.Desc
		out = append(out, fp)
	}
	for a := 0; a < n; a++ {
		add([]int{a})
		for b := 0; b < n; b++ {
			if b == a {
				continue
			}
			add([]int{a, b})
			for c := 0; c < n; c++ {
				if c == a || c == b {
					continue
				}
				add([]int{a, b, c})
			}
		}
	}
	return out
}
