package checks

import (
	"fmt"

	"pmc/internal/harness"
	"pmc/internal/model"
)

// engineProgram is one generated script program with its provenance.
type engineProgram struct {
	Desc   string
	Script *model.Script
}

// forEachEngineProgram enumerates the C01 families and the C03 case-list
// programs at the given bounds (re-run, never cached) and calls f on each.
// It returns a description of the levels completed.
func forEachEngineProgram(r *harness.Run, plans []famPlan, c03MaxN int, f func(w int, p engineProgram)) {
	runFamilies(r, plans, func(w int, fam *model.Family, n int, idx uint64, variant int, sc *model.Script) {
		f(w, engineProgram{Desc: fmt.Sprintf("family=%s n=%d idx=%d variant=%d", fam.Name, n, idx, variant), Script: sc})
	})
	completed := 0
	for n := 1; n <= c03MaxN && !r.Expired(); n++ {
		alphabet := c03Alphabet(n)
		nb := len(alphabet)
		pow := uint64(1)
		for i := 0; i < n; i++ {
			pow *= uint64(nb)
		}
		total := uint64(n+1) * pow * c03Contexts
		done := r.Parallel(total, func(w int, idx uint64) {
			ctx := int(idx % c03Contexts)
			if ctx == 7 {
				return // the constant-expression context needs C03's const prefix; C03 covers it
			}
			x := idx / c03Contexts
			defPos := int(x % uint64(n+1))
			x /= uint64(n + 1)
			bodies := make([]int, n)
			for i := range bodies {
				bodies[i] = alphabet[x%uint64(nb)]
				x /= uint64(nb)
				if bodies[i] == 9 && !c03InLoop(ctx) {
					return
				}
			}
			f(w, engineProgram{Desc: fmt.Sprintf("switch entries=%d default@%d bodies=%v ctx=%d", n, defPos, bodies, ctx), Script: c03Program(n, defPos, bodies, ctx)})
		})
		if done {
			completed = n
		}
	}
	// labels in dead code (after end / return / break / goto / an infinite loop, in shared switch bodies), with gotos to them
	dead := deadLabelPrograms()
	r.Parallel(uint64(len(dead)), func(w int, i uint64) {
		f(w, engineProgram{Desc: fmt.Sprintf("dead-label program %d", i), Script: dead[i]})
	})
	r.Set("dead_label_programs", len(dead))
	seqLen := 2
	if r.Tier == "thorough" {
		seqLen = 3
	}
	if !r.Expired() {
		forEachSequenceProgram(r, seqLen, f)
	}
	if !r.Expired() {
		forEachScaledProgram(r, f)
	}
	r.Set("switch_entries_completed", completed)
	if completed < c03MaxN {
		r.NotExhaustive(fmt.Sprintf("switch programs completed entries<=%d of planned <=%d", completed, c03MaxN))
	}
}

// liftPlans: the bounds at which the lifted properties (C12, C13, C15, C16, C17, C19 over the control-flow families)
// enumerate the families: the quick engine bounds in the quick tier, one level above them in the thorough tier (the
// lifts multiply every program by several compilations).
func liftPlans(tier string) ([]famPlan, int) {
	fams := c01Families()
	if tier == "thorough" {
		return []famPlan{{fams[0], 4}, {fams[1], 5}, {fams[2], 5}, {fams[3], 5}}, 4
	}
	return enginePlans("quick")
}

func enginePlans(tier string) ([]famPlan, int) {
	fams := c01Families()
	if tier == "thorough" {
		return []famPlan{{fams[0], 4}, {fams[1], 6}, {fams[2], 6}, {fams[3], 6}}, 5
	}
	return []famPlan{{fams[0], 3}, {fams[1], 5}, {fams[2], 4}, {fams[3], 4}}, 3
}

// ---------------------------------------------------------------------------
// Statement sequences: every sequence of <= L statement templates, which
// exercises the sequential composition of constructs (chunk bookkeeping
// across statements) rather than nesting.

func seqTemplates() []func(k int) model.Stmt {
	n := func(p string, k int) string { return fmt.Sprintf("%s%d", p, k) }
	fl := func(p string, k int) *model.Cond { return mflag(n(p, k)) }
	cmd := func(p string, k int) model.Stmt { return mcmd(n(p, k)) }
	ifBreak := func(p string, k int) model.Stmt {
		return model.Stmt{Kind: model.SIf, Arms: []model.Arm{{Cond: fl(p, k), Body: []model.Stmt{{Kind: model.SBreak}}}}}
	}
	return []func(k int) model.Stmt{
		func(k int) model.Stmt { return cmd("c", k) },
		func(k int) model.Stmt {
			return model.Stmt{Kind: model.SIf, Arms: []model.Arm{{Cond: fl("F", k), Body: []model.Stmt{cmd("c", k)}}}}
		},
		func(k int) model.Stmt {
			return model.Stmt{Kind: model.SIf, Arms: []model.Arm{{Cond: fl("F", k), Body: []model.Stmt{cmd("c", k)}}}, HasElse: true, Else: []model.Stmt{cmd("d", k)}}
		},
		func(k int) model.Stmt {
			return model.Stmt{Kind: model.SIf, Arms: []model.Arm{{Cond: fl("F", k), Body: []model.Stmt{cmd("c", k)}}, {Cond: fl("G", k), Body: nil}}, HasElse: true, Else: []model.Stmt{cmd("d", k)}}
		},
		func(k int) model.Stmt {
			return model.Stmt{Kind: model.SIf, Arms: []model.Arm{{Cond: fl("F", k), Body: []model.Stmt{cmd("c", k)}}, {Cond: fl("G", k), Body: nil}, {Cond: fl("H", k), Body: []model.Stmt{cmd("e", k)}}}}
		},
		func(k int) model.Stmt { // an empty else block
			return model.Stmt{Kind: model.SIf, Arms: []model.Arm{{Cond: fl("F", k), Body: []model.Stmt{cmd("c", k)}}}, HasElse: true, Else: nil}
		},
		func(k int) model.Stmt { // elif and an empty else block
			return model.Stmt{Kind: model.SIf, Arms: []model.Arm{{Cond: fl("F", k), Body: nil}, {Cond: fl("G", k), Body: []model.Stmt{cmd("c", k)}}}, HasElse: true, Else: nil}
		},
		func(k int) model.Stmt {
			return model.Stmt{Kind: model.SWhile, Cond: fl("W", k), Body: []model.Stmt{cmd("c", k)}}
		},
		func(k int) model.Stmt {
			return model.Stmt{Kind: model.SWhile, Cond: fl("W", k), Body: []model.Stmt{cmd("c", k), ifBreak("B", k)}}
		},
		func(k int) model.Stmt {
			return model.Stmt{Kind: model.SWhileInf, Body: []model.Stmt{cmd("c", k), {Kind: model.SBreak}}}
		},
		func(k int) model.Stmt {
			return model.Stmt{Kind: model.SDoWhile, Cond: fl("D", k), Body: []model.Stmt{cmd("c", k)}}
		},
		func(k int) model.Stmt {
			return model.Stmt{Kind: model.SDoWhile, Cond: &model.Cond{Kind: model.CLeaf, Leaf: model.LeafForm(20, k)}, Body: []model.Stmt{
				{Kind: model.SIf, Arms: []model.Arm{{Cond: fl("K", k), Body: []model.Stmt{{Kind: model.SContinue}}}}}, cmd("c", k)}}
		},
		func(k int) model.Stmt {
			return model.Stmt{Kind: model.SSwitch, Operand: mvar(n("X", k)), Cases: []model.Case{{Val: 1, Body: []model.Stmt{cmd("c", k)}}}}
		},
		func(k int) model.Stmt {
			return model.Stmt{Kind: model.SSwitch, Operand: mvar(n("X", k)), Cases: []model.Case{{Val: 1, Body: []model.Stmt{cmd("c", k), {Kind: model.SBreak}}}, {Default: true, Body: []model.Stmt{cmd("d", k)}}}}
		},
		func(k int) model.Stmt {
			return model.Stmt{Kind: model.SSwitch, Operand: mvar(n("X", k)), Cases: []model.Case{{Default: true, Body: []model.Stmt{cmd("d", k)}}, {Val: 1}, {Val: 2}}}
		},
		func(k int) model.Stmt {
			return model.Stmt{Kind: model.SSwitch, Operand: mvar(n("X", k)), Cases: []model.Case{{Val: 1}, {Val: 2, Body: []model.Stmt{cmd("c", k)}}, {Val: 3}}}
		},
		func(k int) model.Stmt {
			return model.Stmt{Kind: model.SSwitch, Operand: mvar(n("X", k)), Cases: []model.Case{{Default: true}, {Val: 1, Body: []model.Stmt{cmd("c", k)}}, {Val: 2, Body: []model.Stmt{cmd("e", k)}}}}
		},
		func(k int) model.Stmt { return model.Stmt{Kind: model.SLabel, Name: n("L", k)} },
		func(k int) model.Stmt { return model.Stmt{Kind: model.SGoto, Name: "EXT"} },
		func(k int) model.Stmt {
			return model.Stmt{Kind: model.SGotoIf, Name: "EXT", Flag: n("J", k), WantSet: true}
		},
		func(k int) model.Stmt {
			return model.Stmt{Kind: model.SWhile, Cond: fl("W", k), Body: []model.Stmt{cmd("c", k), {Kind: model.SGotoIf, Name: "EXT", Flag: n("J", k), WantSet: false}}}
		},
		func(k int) model.Stmt {
			return model.Stmt{Kind: model.SIf, Arms: []model.Arm{{Cond: &model.Cond{Kind: model.COr, L: &model.Cond{Kind: model.CAnd, L: fl("P", k), R: fl("Q", k)}, R: fl("R", k)}, Body: []model.Stmt{cmd("c", k)}}}}
		},
		func(k int) model.Stmt { return model.Stmt{Kind: model.SEnd} },
		func(k int) model.Stmt {
			return model.Stmt{Kind: model.SIf, Arms: []model.Arm{{Cond: fl("F", k), Body: []model.Stmt{{Kind: model.SReturn}}}}}
		},
		func(k int) model.Stmt {
			return model.Stmt{Kind: model.SWhile, Cond: fl("W", k), Body: []model.Stmt{{Kind: model.SSwitch, Operand: mvar(n("X", k)), Cases: []model.Case{
				{Val: 1, Body: []model.Stmt{{Kind: model.SBreak}}},
				{Default: true, Body: []model.Stmt{{Kind: model.SIf, Arms: []model.Arm{{Cond: fl("K", k), Body: []model.Stmt{{Kind: model.SContinue}}}}}, cmd("c", k)}}}}}}
		},
		func(k int) model.Stmt {
			return model.Stmt{Kind: model.SIf, Arms: []model.Arm{{Cond: fl("F", k), Body: []model.Stmt{{Kind: model.SWhile, Cond: fl("W", k), Body: []model.Stmt{cmd("c", k)}}}}}, HasElse: true,
				Else: []model.Stmt{{Kind: model.SSwitch, Operand: mvar(n("X", k)), Cases: []model.Case{{Val: 1, Body: []model.Stmt{cmd("d", k)}}, {Val: 2}}}}}
		},
		func(k int) model.Stmt {
			return model.Stmt{Kind: model.SWhile, Cond: fl("W", k), Body: []model.Stmt{cmd("c", k), {Kind: model.SBreak}, {Kind: model.SLabel, Name: n("M", k)}, cmd("e", k)}}
		},
		func(k int) model.Stmt { // a guarded continue in a case body shared by two case values, in a loop
			return model.Stmt{Kind: model.SWhile, Cond: fl("W", k), Body: []model.Stmt{{Kind: model.SSwitch, Operand: mvar(n("X", k)), Cases: []model.Case{
				{Val: 1}, {Val: 2, Body: []model.Stmt{cmd("c", k), {Kind: model.SIf, Arms: []model.Arm{{Cond: fl("K", k), Body: []model.Stmt{{Kind: model.SContinue}}}}}, cmd("e", k)}},
				{Val: 3, Body: []model.Stmt{cmd("d", k)}}}}, cmd("f", k)}}
		},
		func(k int) model.Stmt { // a switch directly followed by return, the two closing a nested block
			return model.Stmt{Kind: model.SIf, Arms: []model.Arm{{Cond: fl("F", k), Body: []model.Stmt{
				{Kind: model.SSwitch, Operand: mvar(n("X", k)), Cases: []model.Case{{Val: 1, Body: []model.Stmt{cmd("c", k)}}, {Val: 2, Body: []model.Stmt{cmd("d", k)}}}}, {Kind: model.SReturn}}}}}
		},
	}
}

// seqCount is the number of template sequences of length 1..maxLen.
func seqCount(maxLen int) uint64 {
	t := uint64(len(seqTemplates()))
	total, pow := uint64(0), uint64(1)
	for l := 1; l <= maxLen; l++ {
		pow *= t
		total += pow
	}
	return total
}

// seqProgram builds the idx-th sequence (shorter sequences first).
func seqProgram(idx uint64) *model.Script {
	ts := seqTemplates()
	t := uint64(len(ts))
	l, pow := 1, t
	for idx >= pow {
		idx -= pow
		pow *= t
		l++
	}
	body := make([]model.Stmt, l)
	for i := 0; i < l; i++ {
		body[i] = ts[idx%t](i)
		idx /= t
	}
	return &model.Script{Name: "S", Body: body}
}

// forEachSequenceProgram enumerates every template sequence of length <= maxLen.
func forEachSequenceProgram(r *harness.Run, maxLen int, f func(w int, p engineProgram)) {
	total := seqCount(maxLen)
	done := r.Parallel(total, func(w int, idx uint64) {
		f(w, engineProgram{Desc: fmt.Sprintf("sequence idx=%d", idx), Script: seqProgram(idx)})
	})
	r.Set("sequence_programs", total)
	r.Set("sequence_max_length", maxLen)
	if !done {
		r.NotExhaustive("statement sequences not completed")
	}
}

// ---------------------------------------------------------------------------
// Scaled programs: the size dimension. Every statement template repeated K
// times in sequence, K nested levels of each block statement, and a switch with
// K cases, for every K up to a bound well above any small fixed capacity
// (64-entry tables, bit masks) an implementation might use.

func scaleBounds(tier string) (seqK, nestK, caseK int) {
	if tier == "thorough" {
		return 96, 96, 300
	}
	return 40, 40, 100
}

func scaledPrograms(tier string) []engineProgram {
	seqK, nestK, caseK := scaleBounds(tier)
	var out []engineProgram
	ts := seqTemplates()
	for ti, t := range ts {
		for k := 4; k <= seqK; k++ {
			// a separator command after each copy keeps the explored environment small: the lazy
			// environment is forgotten at every command, so operand reads never pile up across copies
			body := make([]model.Stmt, 0, 2*k)
			for i := 0; i < k; i++ {
				body = append(body, t(i), mcmd(fmt.Sprintf("s%d", i)))
			}
			out = append(out, engineProgram{Desc: fmt.Sprintf("scaled: template %d x %d in sequence", ti, k), Script: &model.Script{Name: "S", Body: body}})
		}
	}
	for wi, w := range labelWrappers() {
		for k := 3; k <= nestK; k++ {
			in := []model.Stmt{mcmd("core")}
			for d := k; d >= 1; d-- {
				in = []model.Stmt{mcmd(fmt.Sprintf("a%d", d)), w(in, d), mcmd(fmt.Sprintf("z%d", d))}
			}
			out = append(out, engineProgram{Desc: fmt.Sprintf("scaled: block kind %d nested %d deep", wi, k), Script: &model.Script{Name: "S", Body: in}})
		}
	}
	out = append(out, mixedNestingPrograms(tier)...)
	for k := 5; k <= caseK; k++ {
		for variant := 0; variant < 3; variant++ {
			sw := model.Stmt{Kind: model.SSwitch, Operand: mvar("X")}
			for i := 1; i <= k; i++ {
				var body []model.Stmt
				if variant != 1 || i%3 != 0 {
					body = []model.Stmt{mcmd(fmt.Sprintf("c%d", i))}
				}
				sw.Cases = append(sw.Cases, model.Case{Val: i, Body: body})
			}
			if variant == 2 {
				sw.Cases = append(sw.Cases, model.Case{Default: true, Body: []model.Stmt{mcmd("d")}})
			}
			out = append(out, engineProgram{Desc: fmt.Sprintf("scaled: switch with %d cases, variant %d", k, variant), Script: &model.Script{Name: "S", Body: []model.Stmt{mcmd("a"), sw, mcmd("z")}}})
		}
	}
	return out
}

// hugePrograms: single scripts with thousands of sub-labels (a statement template repeated K times for a few large K):
// per-script capacities - a bitset, a fixed table, a narrow integer for chunk ids - show here and nowhere else.
func hugePrograms(tier string) []engineProgram {
	ks := []int{350, 1100, 22000} // (3 x 22000 sub-labels: beyond 16 bits)
	if tier == "thorough" {
		ks = []int{350, 1100, 3000, 22000, 45000}
	}
	ts := seqTemplates()
	var out []engineProgram
	for _, ti := range []int{1, 2, 7, 13} { // if, if/else, while, switch with break and default
		for _, k := range ks {
			body := make([]model.Stmt, 0, 2*k)
			for i := 0; i < k; i++ {
				body = append(body, ts[ti](i), mcmd(fmt.Sprintf("s%d", i)))
			}
			out = append(out, engineProgram{Desc: fmt.Sprintf("huge: template %d x %d in one script", ti, k), Script: &model.Script{Name: "S", Body: body}})
		}
	}
	return out
}

// mixedNestingPrograms: block kinds of different kinds nested in every order (see the comment inside).
func mixedNestingPrograms(tier string) []engineProgram {
	var out []engineProgram
	// mixed nesting: every ordered triple of block kinds (thorough: also every quadruple around the plain core) around
	// each of six cores - a command, a guarded break, a guarded continue, a labelled command with a goto to it from the
	// script start, a switch followed by return, and end
	wr := labelWrappers()
	isLoop := func(w int) bool { return w >= 4 && w <= 6 }
	isBreakable := func(w int) bool { return w >= 4 }
	depth := 3
	if tier == "thorough" {
		depth = 4
	}
	for d := 3; d <= depth; d++ {
		n := 1
		for i := 0; i < d; i++ {
			n *= len(wr)
		}
		for x := 0; x < n; x++ {
			kinds := make([]int, d) // kinds[0] is the outermost
			anyLoop, anyBreakable := false, false
			for i, y := 0, x; i < d; i++ {
				kinds[i] = y % len(wr)
				y /= len(wr)
				anyLoop = anyLoop || isLoop(kinds[i])
				anyBreakable = anyBreakable || isBreakable(kinds[i])
			}
			for core := 0; core < 6; core++ {
				if d == 4 && core != 0 && core != 2 {
					continue
				}
				var in, pre []model.Stmt
				switch core {
				case 0:
					in = []model.Stmt{mcmd("core")}
				case 1:
					if !anyBreakable {
						continue
					}
					in = []model.Stmt{mcmd("core"), {Kind: model.SIf, Arms: []model.Arm{{Cond: mflag("BRK"), Body: []model.Stmt{{Kind: model.SBreak}}}}}, mcmd("after")}
				case 2:
					if !anyLoop {
						continue
					}
					in = []model.Stmt{mcmd("core"), {Kind: model.SIf, Arms: []model.Arm{{Cond: mflag("CNT"), Body: []model.Stmt{{Kind: model.SContinue}}}}}, mcmd("after")}
				case 3:
					pre = []model.Stmt{{Kind: model.SGotoIf, Name: "LCORE", Flag: "JIN", WantSet: true}}
					in = []model.Stmt{mcmd("before"), {Kind: model.SLabel, Name: "LCORE"}, mcmd("core")}
				case 4:
					in = []model.Stmt{{Kind: model.SSwitch, Operand: mvar("XC"), Cases: []model.Case{{Val: 1, Body: []model.Stmt{mcmd("c1"), {Kind: model.SBreak}}}, {Default: true, Body: []model.Stmt{mcmd("cd")}}}}, {Kind: model.SReturn}}
				default:
					in = []model.Stmt{mcmd("core"), {Kind: model.SEnd}}
				}
				for i := d - 1; i >= 0; i-- {
					in = []model.Stmt{mcmd(fmt.Sprintf("a%d", i)), wr[kinds[i]](in, i), mcmd(fmt.Sprintf("z%d", i))}
				}
				out = append(out, engineProgram{Desc: fmt.Sprintf("mixed nesting: block kinds %v (outermost first) around core %d", kinds, core), Script: &model.Script{Name: "S", Body: append(pre, in...)}})
			}
		}
	}
	return out
}

func forEachScaledProgram(r *harness.Run, f func(w int, p engineProgram)) {
	ps := scaledPrograms(r.Tier)
	done := r.Parallel(uint64(len(ps)), func(w int, i uint64) { f(w, ps[i]) })
	seqK, nestK, caseK := scaleBounds(r.Tier)
	r.Set("scaled_programs", len(ps))
	r.Set("scaled_max_sequence", seqK)
	r.Set("scaled_max_nesting", nestK)
	r.Set("scaled_max_cases", caseK)
	if !done {
		r.NotExhaustive("scaled programs not completed")
	}
}

// forEachDataFamilyFile re-enumerates the C06 (hoisted text / moves) and C08 (mapscripts) file families at a reduced
// bound, plus the file-level programs, and hands every generated file to f (the families' own oracles do not run).
func forEachDataFamilyFile(r *harness.Run, tier string, f func(fp *fileProgram)) {
	for _, fp := range fileLevelPrograms(tier) {
		f(fp)
	}
	c04Tap = f
	defer func() { c04Tap = nil }()
	slots, ents := 2, 2
	if tier == "thorough" {
		slots, ents = 3, 3
	}
	if !r.Expired() {
		c06Enumerate(r, slots, []int{0, 5, 9}, func(data []datum, dist []int, rot, clash int) { c06Eval(r, data, dist, rot, clash) })
	}
	if !r.Expired() {
		c08Enumerate(r, 2, ents, func(entries []c08Entry, scope string, opt bool) {
			if opt {
				c08Eval(r, entries, scope, opt, map[string]string{"PV": "SEL"})
			}
		})
	}
}
