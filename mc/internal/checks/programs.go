package checks

import (
	"fmt"

	"pmc/internal/harness"
	"pmc/internal/model"
)

// engineProgram is one generated script program with its provenance.
type engineProgram struct {
	Desc   string
	Script *model.Script
}

// forEachEngineProgram enumerates the C01 families and the C03 case-list
// programs at the given bounds (re-run, never cached) and calls f on each.
// It returns a description of the levels completed.
func forEachEngineProgram(r *harness.Run, plans []famPlan, c03MaxN int, f func(w int, p engineProgram)) {
	runFamilies(r, plans, func(w int, fam *model.Family, n int, idx uint64, variant int, sc *model.Script) {
		f(w, engineProgram{Desc: fmt.Sprintf("family=%s n=%d idx=%d variant=%d", fam.Name, n, idx, variant), Script: sc})
	})
	completed := 0
	for n := 1; n <= c03MaxN && !r.Expired(); n++ {
		nb := c03BodiesLoop
		if n >= 6 {
			nb = 5
		}
		if n == 5 {
			nb = 8
		}
		pow := uint64(1)
		for i := 0; i < n; i++ {
			pow *= uint64(nb)
		}
		total := uint64(n+1) * pow * c03Contexts
		done := r.Parallel(total, func(w int, idx uint64) {
			ctx := int(idx % c03Contexts)
			x := idx / c03Contexts
			defPos := int(x % uint64(n+1))
			x /= uint64(n + 1)
			bodies := make([]int, n)
			for i := range bodies {
				bodies[i] = int(x % uint64(nb))
				x /= uint64(nb)
				if bodies[i] == 9 && !c03InLoop(ctx) {
					return
				}
			}
			f(w, engineProgram{Desc: fmt.Sprintf("switch entries=%d default@%d bodies=%v ctx=%d", n, defPos, bodies, ctx), Script: c03Program(n, defPos, bodies, ctx)})
		})
		if done {
			completed = n
		}
	}
	r.Set("switch_entries_completed", completed)
	if completed < c03MaxN {
		r.NotExhaustive(fmt.Sprintf("switch programs completed entries<=%d of planned <=%d", completed, c03MaxN))
	}
}

func enginePlans(tier string) ([]famPlan, int) {
	fams := c01Families()
	if tier == "thorough" {
		return []famPlan{{fams[0], 4}, {fams[1], 6}, {fams[2], 6}, {fams[3], 6}}, 5
	}
	return []famPlan{{fams[0], 3}, {fams[1], 5}, {fams[2], 4}, {fams[3], 4}}, 3
}
