package checks

import (
	"fmt"

	"pmc/internal/harness"
	"pmc/internal/model"
)

// engineProgram is one generated script program with its provenance.
type engineProgram struct {
	Desc   string
	Script *model.Script
}

// forEachEngineProgram enumerates the C01 families and the C03 case-list
// programs at the given bounds (re-run, never cached) and calls f on each.
// It returns a description of the levels completed.
func forEachEngineProgram(r *harness.Run, plans []famPlan, c03MaxN int, f func(w int, p engineProgram)) {
	runFamilies(r, plans, func(w int, fam *model.Family, n int, idx uint64, variant int, sc *model.Script) {
		f(w, engineProgram{Desc: fmt.Sprintf("family=%s n=%d idx=%d variant=%d", fam.Name, n, idx, variant), Script: sc})
	})
	completed := 0
	for n := 1; n <= c03MaxN && !r.Expired(); n++ {
		nb := c03BodiesLoop
		if n >= 6 {
			nb = 5
		}
		if n == 5 {
			nb = 8
		}
		pow := uint64(1)
		for i := 0; i < n; i++ {
			pow *= uint64(nb)
		}
		total := uint64(n+1) * pow * c03Contexts
		done := r.Parallel(total, func(w int, idx uint64) {
			ctx := int(idx % c03Contexts)
			if ctx == 7 {
				return // the constant-expression context needs C03's const prefix; C03 covers it
			}
			x := idx / c03Contexts
			defPos := int(x % uint64(n+1))
			x /= uint64(n + 1)
			bodies := make([]int, n)
			for i := range bodies {
				bodies[i] = int(x % uint64(nb))
				x /= uint64(nb)
				if bodies[i] == 9 && !c03InLoop(ctx) {
					return
				}
			}
			f(w, engineProgram{Desc: fmt.Sprintf("switch entries=%d default@%d bodies=%v ctx=%d", n, defPos, bodies, ctx), Script: c03Program(n, defPos, bodies, ctx)})
		})
		if done {
			completed = n
		}
	}
	// labels in dead code (after end / return / break / goto / an infinite loop, in shared switch bodies), with gotos to them
	dead := deadLabelPrograms()
	r.Parallel(uint64(len(dead)), func(w int, i uint64) {
		f(w, engineProgram{Desc: fmt.Sprintf("dead-label program %d", i), Script: dead[i]})
	})
	r.Set("dead_label_programs", len(dead))
	seqLen := 2
	if r.Tier == "thorough" {
		seqLen = 3
	}
	if !r.Expired() {
		forEachSequenceProgram(r, seqLen, f)
	}
	r.Set("switch_entries_completed", completed)
	if completed < c03MaxN {
		r.NotExhaustive(fmt.Sprintf("switch programs completed entries<=%d of planned <=%d", completed, c03MaxN))
	}
}

func enginePlans(tier string) ([]famPlan, int) {
	fams := c01Families()
	if tier == "thorough" {
		return []famPlan{{fams[0], 4}, {fams[1], 6}, {fams[2], 6}, {fams[3], 6}}, 5
	}
	return []famPlan{{fams[0], 3}, {fams[1], 5}, {fams[2], 4}, {fams[3], 4}}, 3
}

// ---------------------------------------------------------------------------
// Statement sequences: every sequence of <= L statement templates, which
// exercises the sequential composition of constructs (chunk bookkeeping
// across statements) rather than nesting.

func seqTemplates() []func(k int) model.Stmt {
	n := func(p string, k int) string { return fmt.Sprintf("%s%d", p, k) }
	fl := func(p string, k int) *model.Cond { return mflag(n(p, k)) }
	cmd := func(p string, k int) model.Stmt { return mcmd(n(p, k)) }
	ifBreak := func(p string, k int) model.Stmt {
		return model.Stmt{Kind: model.SIf, Arms: []model.Arm{{Cond: fl(p, k), Body: []model.Stmt{{Kind: model.SBreak}}}}}
	}
	return []func(k int) model.Stmt{
		func(k int) model.Stmt { return cmd("c", k) },
		func(k int) model.Stmt {
			return model.Stmt{Kind: model.SIf, Arms: []model.Arm{{Cond: fl("F", k), Body: []model.Stmt{cmd("c", k)}}}}
		},
		func(k int) model.Stmt {
			return model.Stmt{Kind: model.SIf, Arms: []model.Arm{{Cond: fl("F", k), Body: []model.Stmt{cmd("c", k)}}}, HasElse: true, Else: []model.Stmt{cmd("d", k)}}
		},
		func(k int) model.Stmt {
			return model.Stmt{Kind: model.SIf, Arms: []model.Arm{{Cond: fl("F", k), Body: []model.Stmt{cmd("c", k)}}, {Cond: fl("G", k), Body: nil}}, HasElse: true, Else: []model.Stmt{cmd("d", k)}}
		},
		func(k int) model.Stmt {
			return model.Stmt{Kind: model.SWhile, Cond: fl("W", k), Body: []model.Stmt{cmd("c", k)}}
		},
		func(k int) model.Stmt {
			return model.Stmt{Kind: model.SWhile, Cond: fl("W", k), Body: []model.Stmt{cmd("c", k), ifBreak("B", k)}}
		},
		func(k int) model.Stmt {
			return model.Stmt{Kind: model.SWhileInf, Body: []model.Stmt{cmd("c", k), {Kind: model.SBreak}}}
		},
		func(k int) model.Stmt {
			return model.Stmt{Kind: model.SDoWhile, Cond: fl("D", k), Body: []model.Stmt{cmd("c", k)}}
		},
		func(k int) model.Stmt {
			return model.Stmt{Kind: model.SDoWhile, Cond: &model.Cond{Kind: model.CLeaf, Leaf: model.LeafForm(20, k)}, Body: []model.Stmt{
				{Kind: model.SIf, Arms: []model.Arm{{Cond: fl("K", k), Body: []model.Stmt{{Kind: model.SContinue}}}}}, cmd("c", k)}}
		},
		func(k int) model.Stmt {
			return model.Stmt{Kind: model.SSwitch, Operand: mvar(n("X", k)), Cases: []model.Case{{Val: 1, Body: []model.Stmt{cmd("c", k)}}}}
		},
		func(k int) model.Stmt {
			return model.Stmt{Kind: model.SSwitch, Operand: mvar(n("X", k)), Cases: []model.Case{{Val: 1, Body: []model.Stmt{cmd("c", k), {Kind: model.SBreak}}}, {Default: true, Body: []model.Stmt{cmd("d", k)}}}}
		},
		func(k int) model.Stmt {
			return model.Stmt{Kind: model.SSwitch, Operand: mvar(n("X", k)), Cases: []model.Case{{Default: true, Body: []model.Stmt{cmd("d", k)}}, {Val: 1}, {Val: 2}}}
		},
		func(k int) model.Stmt {
			return model.Stmt{Kind: model.SSwitch, Operand: mvar(n("X", k)), Cases: []model.Case{{Val: 1}, {Val: 2, Body: []model.Stmt{cmd("c", k)}}, {Val: 3}}}
		},
		func(k int) model.Stmt {
			return model.Stmt{Kind: model.SSwitch, Operand: mvar(n("X", k)), Cases: []model.Case{{Default: true}, {Val: 1, Body: []model.Stmt{cmd("c", k)}}, {Val: 2, Body: []model.Stmt{cmd("e", k)}}}}
		},
		func(k int) model.Stmt { return model.Stmt{Kind: model.SLabel, Name: n("L", k)} },
		func(k int) model.Stmt { return model.Stmt{Kind: model.SGoto, Name: "EXT"} },
		func(k int) model.Stmt {
			return model.Stmt{Kind: model.SGotoIf, Name: "EXT", Flag: n("J", k), WantSet: true}
		},
		func(k int) model.Stmt {
			return model.Stmt{Kind: model.SWhile, Cond: fl("W", k), Body: []model.Stmt{cmd("c", k), {Kind: model.SGotoIf, Name: "EXT", Flag: n("J", k), WantSet: false}}}
		},
		func(k int) model.Stmt {
			return model.Stmt{Kind: model.SIf, Arms: []model.Arm{{Cond: &model.Cond{Kind: model.COr, L: &model.Cond{Kind: model.CAnd, L: fl("P", k), R: fl("Q", k)}, R: fl("R", k)}, Body: []model.Stmt{cmd("c", k)}}}}
		},
		func(k int) model.Stmt { return model.Stmt{Kind: model.SEnd} },
		func(k int) model.Stmt {
			return model.Stmt{Kind: model.SIf, Arms: []model.Arm{{Cond: fl("F", k), Body: []model.Stmt{{Kind: model.SReturn}}}}}
		},
		func(k int) model.Stmt {
			return model.Stmt{Kind: model.SWhile, Cond: fl("W", k), Body: []model.Stmt{{Kind: model.SSwitch, Operand: mvar(n("X", k)), Cases: []model.Case{
				{Val: 1, Body: []model.Stmt{{Kind: model.SBreak}}},
				{Default: true, Body: []model.Stmt{{Kind: model.SIf, Arms: []model.Arm{{Cond: fl("K", k), Body: []model.Stmt{{Kind: model.SContinue}}}}}, cmd("c", k)}}}}}}
		},
		func(k int) model.Stmt {
			return model.Stmt{Kind: model.SIf, Arms: []model.Arm{{Cond: fl("F", k), Body: []model.Stmt{{Kind: model.SWhile, Cond: fl("W", k), Body: []model.Stmt{cmd("c", k)}}}}}, HasElse: true,
				Else: []model.Stmt{{Kind: model.SSwitch, Operand: mvar(n("X", k)), Cases: []model.Case{{Val: 1, Body: []model.Stmt{cmd("d", k)}}, {Val: 2}}}}}
		},
		func(k int) model.Stmt {
			return model.Stmt{Kind: model.SWhile, Cond: fl("W", k), Body: []model.Stmt{cmd("c", k), {Kind: model.SBreak}, {Kind: model.SLabel, Name: n("M", k)}, cmd("e", k)}}
		},
	}
}

// seqCount is the number of template sequences of length 1..maxLen.
func seqCount(maxLen int) uint64 {
	t := uint64(len(seqTemplates()))
	total, pow := uint64(0), uint64(1)
	for l := 1; l <= maxLen; l++ {
		pow *= t
		total += pow
	}
	return total
}

// seqProgram builds the idx-th sequence (shorter sequences first).
func seqProgram(idx uint64) *model.Script {
	ts := seqTemplates()
	t := uint64(len(ts))
	l, pow := 1, t
	for idx >= pow {
		idx -= pow
		pow *= t
		l++
	}
	body := make([]model.Stmt, l)
	for i := 0; i < l; i++ {
		body[i] = ts[idx%t](i)
		idx /= t
	}
	return &model.Script{Name: "S", Body: body}
}

// forEachSequenceProgram enumerates every template sequence of length <= maxLen.
func forEachSequenceProgram(r *harness.Run, maxLen int, f func(w int, p engineProgram)) {
	total := seqCount(maxLen)
	done := r.Parallel(total, func(w int, idx uint64) {
		f(w, engineProgram{Desc: fmt.Sprintf("sequence idx=%d", idx), Script: seqProgram(idx)})
	})
	r.Set("sequence_programs", total)
	r.Set("sequence_max_length", maxLen)
	if !done {
		r.NotExhaustive("statement sequences not completed")
	}
}
