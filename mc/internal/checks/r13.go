package checks

import (
	"fmt"
	"strings"

	"pmc/internal/comp"
	"pmc/internal/harness"
)

// Round 13: families whose oracle is differential - what a statement compiles to alone is what it must compile to next to
// another statement - so that no expected value is written by hand.

// pairSpellings: inline arguments whose dedupe keys are close to each other: string types that differ only in letter
// case, terminators written out, step lists whose name+count spellings coincide (a * 12, a1 * 2, a12), a multiplier of 1.
var pairSpellings = []string{
	`custom"hi"`, `CUSTOM"hi"`, `Custom"hi"`, `"hi"`, `ascii"hi\0"`, `ASCII"hi\0"`, `ascii"hi"`, `braille"hi"`, `BRAILLE"hi$"`, `braille"hi$"`,
	`moves(a * 12)`, `moves(a1 * 2)`, `moves(a12)`, `moves(a12 * 1)`, `moves(a * 2)`, `moves(a2)`, `moves(a a)`, `moves(a1 a1)`,
	`moves(delay_1 * 61)`, `moves(delay_16)`, `moves(delay_16 * 1)`, `moves(delay_1 * 6)`, `moves(delay_1 * 16)`, `moves(delay_11 * 6)`,
}

// dataBlockOf returns the label that command cmd got for its argument and the lines under that label (without the label).
func dataBlockOf(out, cmd string) (string, string, int) {
	lines := strings.Split(out, "\n")
	label := ""
	for _, l := range lines {
		if strings.HasPrefix(l, "\t"+cmd+" ") {
			label = strings.TrimPrefix(l, "\t"+cmd+" ")
		}
	}
	if label == "" {
		return "", "", 0
	}
	defs := 0
	var blk []string
	for i, l := range lines {
		if l == label+":" || l == label+"::" {
			defs++
			if defs > 1 {
				continue
			}
			for _, m := range lines[i+1:] {
				if m == "" || (!strings.HasPrefix(m, "\t") && strings.HasSuffix(m, ":")) {
					break
				}
				blk = append(blk, m)
			}
		}
	}
	return label, strings.Join(blk, "\n"), defs
}

// pairDataFiles: for every ordered pair (X, Y) of pairSpellings, `script A { pa(X) }  script B { pb(Y) }`:
// each argument's label is defined once and holds what the argument holds when its script is compiled alone, and the two
// arguments share a label exactly when those contents (and their kind) are the same.
func pairDataFiles(r *harness.Run, id string) {
	n := uint64(len(pairSpellings))
	alone := make([][2]string, n) // label, block
	for i, sp := range pairSpellings {
		res := comp.Compile("script A {\n\tpa("+sp+")\n}\n", comp.Opts{})
		if res.Err != nil || res.Panic != "" {
			r.Report(harness.Violation{Sig: id + ":pair-data:alone-rejected", Summary: fmt.Sprintf("script with the single command pa(%s) rejected: %v %s", sp, res.Err, firstLine(res.Panic)), Replay: map[string]interface{}{"argument": sp}})
			return
		}
		l, b, d := dataBlockOf(res.Out, "pa")
		if d != 1 || b == "" {
			r.Report(harness.Violation{Sig: id + ":pair-data:alone-label", Summary: fmt.Sprintf("pa(%s) compiled alone: label %q defined %d times, block %q", sp, l, d, b), Replay: map[string]interface{}{"argument": sp, "output": res.Out}})
			return
		}
		alone[i] = [2]string{l, b}
	}
	done := r.Parallel(n*n, func(w int, idx uint64) {
		i, j := idx/n, idx%n
		x, y := pairSpellings[i], pairSpellings[j]
		src := "script A {\n\tpa(" + x + ")\n}\nscript B {\n\tpb(" + y + ")\n}\n"
		for _, opt := range []bool{false, true} {
			res := comp.Compile(src, comp.Opts{Optimize: opt})
			r.Add("evaluations", 1)
			r.Add("pair_data_files", 1)
			sameKind := strings.HasPrefix(x, "moves(") == strings.HasPrefix(y, "moves(")
			same := sameKind && alone[i][1] == alone[j][1]
			if same {
				r.Add("nontrivial", 1)
			}
			problem := ""
			if res.Err != nil || res.Panic != "" {
				problem = fmt.Sprintf("rejected: %v %s", res.Err, firstLine(res.Panic))
			} else {
				la, ba, da := dataBlockOf(res.Out, "pa")
				lb, bb, db := dataBlockOf(res.Out, "pb")
				switch {
				case da != 1 || db != 1:
					problem = fmt.Sprintf("labels %q / %q defined %d / %d times", la, lb, da, db)
				case ba != alone[i][1]:
					problem = fmt.Sprintf("pa's label %s holds %q; compiled alone the argument holds %q", la, ba, alone[i][1])
				case bb != alone[j][1]:
					problem = fmt.Sprintf("pb's label %s holds %q; compiled alone the argument holds %q", lb, bb, alone[j][1])
				case same != (la == lb):
					problem = fmt.Sprintf("same content = %v but labels are %s and %s", same, la, lb)
				case la != alone[i][0]:
					problem = fmt.Sprintf("the first argument of the file is called %s, alone it is %s", la, alone[i][0])
				}
			}
			if problem != "" {
				r.Report(harness.Violation{Sig: id + ":pair-data", Summary: fmt.Sprintf("pa(%s) in script A, pb(%s) in script B (optimize=%v): %s\n  source: %q", x, y, opt, problem, src), Replay: map[string]interface{}{"source": src, "optimize": opt, "output": res.Out, "how": "compile the source and each script alone with the plain CLI; compare the blocks under the labels the commands refer to"}})
			}
		}
	})
	if !done {
		r.NotExhaustive("pair-data files not completed")
	}
}
