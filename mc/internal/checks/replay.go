package checks

import (
	"encoding/json"
	"fmt"

	"pmc/internal/comp"
)

// genericReplay re-runs a recorded case through the plain library API without
// any explorer: it compiles the recorded source / input under the recorded
// options (and optimize on and off when not recorded) and prints what comes out
// next to the recorded problem.
func genericReplay(raw json.RawMessage) error {
	var doc struct {
		Property string                 `json:"property"`
		Sig      string                 `json:"sig"`
		Summary  string                 `json:"summary"`
		Case     map[string]interface{} `json:"case"`
	}
	if err := json.Unmarshal(raw, &doc); err != nil {
		return err
	}
	fmt.Printf("property %s\nsignature %s\n%s\n\n", doc.Property, doc.Sig, doc.Summary)
	src, _ := doc.Case["source"].(string)
	if src == "" {
		src, _ = doc.Case["input"].(string)
	}
	if src == "" {
		fmt.Println("the case has no source text to recompile; all recorded fields:")
		b, _ := json.MarshalIndent(doc.Case, "", " ")
		fmt.Println(string(b))
		return nil
	}
	sw := map[string]string{}
	if m, ok := doc.Case["switches"].(map[string]interface{}); ok {
		for k, v := range m {
			sw[k] = fmt.Sprint(v)
		}
	}
	opts := []bool{true, false}
	if o, ok := doc.Case["optimize"].(bool); ok {
		opts = []bool{o}
	}
	fmt.Printf("source:\n%s\n", src)
	for _, o := range opts {
		res := comp.Compile(src, comp.Opts{Optimize: o, Switches: sw, Cmd: autoCfg, LineMarkers: doc.Property == "C16" || doc.Property == "C13", Path: "replay.pory", FontPath: repoDir() + "/font_config.json"})
		fmt.Printf("--- optimize=%v switches=%v\n", o, sw)
		switch {
		case res.Panic != "":
			fmt.Printf("PANIC: %s\n", res.Panic)
		case res.Err != nil:
			fmt.Printf("ERROR: %v\n", res.Err)
		default:
			fmt.Print(res.Out)
		}
	}
	if p, ok := doc.Case["problem"]; ok {
		fmt.Printf("\nrecorded problem: %v\n", p)
	}
	return nil
}

func init() {
	// every check without a dedicated replayer gets the generic one (runs after all other init functions
	// of this package only if this file sorts last; so it is applied lazily by ReplayFor instead).
}

// ReplayFor returns the replayer of a property.
func ReplayFor(id string) func(json.RawMessage) error {
	if c, ok := Registry[id]; ok && c.Replay != nil {
		return c.Replay
	}
	return genericReplay
}
