package checks

import (
	"fmt"

	"pmc/internal/machine"
	"pmc/internal/model"
)

// Selftest replays hand-written source / assembly pairs - equivalent and
// deliberately inequivalent - through the reader, the reference lowering and
// the product explorer, to show that the explorer both accepts and rejects.
func Selftest() int {
	ifProg := &model.Script{Name: "S", Body: []model.Stmt{
		{Kind: model.SIf, Arms: []model.Arm{{Cond: mflag("A"), Body: []model.Stmt{mcmd("c1")}}}}, mcmd("c2")}}
	loopProg := &model.Script{Name: "S", Body: []model.Stmt{
		{Kind: model.SWhile, Cond: &model.Cond{Kind: model.CLeaf, Leaf: model.LeafForm(20, 1)}, Body: []model.Stmt{mcmd("c1"), {Kind: model.SIf, Arms: []model.Arm{{Cond: mflag("B"), Body: []model.Stmt{{Kind: model.SBreak}}}}}}}, mcmd("c2")}}
	swProg := &model.Script{Name: "S", Body: []model.Stmt{
		{Kind: model.SSwitch, Operand: mvar("X"), Cases: []model.Case{{Val: 1}, {Val: 2, Body: []model.Stmt{mcmd("a")}}, {Default: true, Body: []model.Stmt{mcmd("d")}}, {Val: 3}}}, mcmd("z")}}
	cases := []struct {
		name   string
		prog   *model.Script
		asm    string
		mode   machine.Mode
		reject bool
	}{
		{"if: correct", ifProg, "S::\n\tgoto_if_set A, S_1\nS_2:\n\tc2\n\treturn\n\nS_1:\n\tc1\n\tgoto S_2\n", machine.Lazy, false},
		{"if: correct, other layout (unset + fall through)", ifProg, "S::\n\tgoto_if_unset A, S_2\n\tc1\nS_2:\n\tc2\n\treturn\n", machine.Lazy, false},
		{"if: other layout is a different read in lockstep? no - same operand", ifProg, "S::\n\tgoto_if_unset A, S_2\n\tc1\nS_2:\n\tc2\n\treturn\n", machine.Lockstep, false},
		{"if: polarity swapped", ifProg, "S::\n\tgoto_if_unset A, S_1\nS_2:\n\tc2\n\treturn\n\nS_1:\n\tc1\n\tgoto S_2\n", machine.Lazy, true},
		{"if: body does not come back", ifProg, "S::\n\tgoto_if_set A, S_1\n\tc2\n\treturn\n\nS_1:\n\tc1\n\treturn\n", machine.Lazy, true},
		{"if: missing return (run-off)", ifProg, "S::\n\tgoto_if_set A, S_1\nS_2:\n\tc2\n\nS_1:\n\tc1\n\tgoto S_2\n", machine.Lazy, true},
		{"if: end instead of return", ifProg, "S::\n\tgoto_if_set A, S_1\nS_2:\n\tc2\n\tend\n\nS_1:\n\tc1\n\tgoto S_2\n", machine.Lazy, true},
		{"if: jump to an undefined label", ifProg, "S::\n\tgoto_if_set A, S_9\nS_2:\n\tc2\n\treturn\n", machine.Lazy, true},
		{"loop: correct", loopProg, "S::\nS_1:\n\tcompare V1, 3\n\tgoto_if_lt S_2\n\tc2\n\treturn\n\nS_2:\n\tc1\n\tgoto_if_set B, S_3\n\tgoto S_1\n\nS_3:\n\tc2\n\treturn\n", machine.Lazy, false},
		{"loop: wrong relation (le instead of lt)", loopProg, "S::\nS_1:\n\tcompare V1, 3\n\tgoto_if_le S_2\n\tc2\n\treturn\n\nS_2:\n\tc1\n\tgoto_if_set B, S_3\n\tgoto S_1\n\nS_3:\n\tc2\n\treturn\n", machine.Lazy, true},
		{"loop: break continues the loop (silent difference only after the command)", loopProg, "S::\nS_1:\n\tcompare V1, 3\n\tgoto_if_lt S_2\n\tc2\n\treturn\n\nS_2:\n\tc1\n\tgoto_if_set B, S_1\n\tgoto S_1\n", machine.Lazy, true},
		{"loop: condition register used without compare", loopProg, "S::\nS_1:\n\tgoto_if_lt S_2\n\tc2\n\treturn\n\nS_2:\n\tc1\n\tgoto_if_set B, S_3\n\tgoto S_1\n\nS_3:\n\tc2\n\treturn\n", machine.Lazy, true},
		{"loop: strict compare differs only in lockstep", loopProg, "S::\nS_1:\n\tcompare_var_to_value V1, 3\n\tgoto_if_lt S_2\n\tc2\n\treturn\n\nS_2:\n\tc1\n\tgoto_if_set B, S_3\n\tgoto S_1\n\nS_3:\n\tc2\n\treturn\n", machine.Lockstep, true},
		{"loop: strict compare is invisible in lazy mode", loopProg, "S::\nS_1:\n\tcompare_var_to_value V1, 3\n\tgoto_if_lt S_2\n\tc2\n\treturn\n\nS_2:\n\tc1\n\tgoto_if_set B, S_3\n\tgoto S_1\n\nS_3:\n\tc2\n\treturn\n", machine.Lazy, false},
		{"switch: correct", swProg, "S::\n\tswitch X\n\tcase 1, S_2\n\tcase 2, S_2\n\tcase 3, S_1\n\tgoto S_3\n\nS_2:\n\ta\n\tgoto S_1\n\nS_3:\n\td\nS_1:\n\tz\n\treturn\n", machine.Lazy, false},
		{"switch: trailing case falls to default", swProg, "S::\n\tswitch X\n\tcase 1, S_2\n\tcase 2, S_2\n\tgoto S_3\n\nS_2:\n\ta\n\tgoto S_1\n\nS_3:\n\td\nS_1:\n\tz\n\treturn\n", machine.Lazy, true},
		{"switch: body falls into the next body", swProg, "S::\n\tswitch X\n\tcase 1, S_2\n\tcase 2, S_2\n\tcase 3, S_1\n\tgoto S_3\n\nS_2:\n\ta\nS_3:\n\td\nS_1:\n\tz\n\treturn\n", machine.Lazy, true},
		{"switch: infinite silent loop instead of return", swProg, "S::\n\tswitch X\n\tcase 1, S_2\n\tcase 2, S_2\n\tcase 3, S_1\n\tgoto S_3\n\nS_2:\n\ta\n\tgoto S_1\n\nS_3:\n\td\nS_1:\n\tz\nS_9:\n\tgoto S_9\n", machine.Lazy, true},
	}
	bad := 0
	for _, c := range cases {
		scripts := []*model.Script{c.prog}
		ref := model.Lower(scripts)
		asm := machine.ReadAsm(c.asm, machine.ReadOpts{Owners: []string{"S"}, UserLabels: model.UserLabels(scripts)})
		st, v := machine.Explore(ref, asm, "S", "S", c.mode)
		ok := (v != nil) == c.reject
		verdict := "accepted"
		if v != nil {
			verdict = "rejected: " + v.String()
		}
		status := "ok  "
		if !ok {
			status = "FAIL"
			bad++
		}
		fmt.Printf("%s %-75s states=%d transitions=%d %s\n", status, c.name, st.States, st.Transitions, verdict)
	}
	if bad > 0 {
		fmt.Printf("selftest: %d of %d cases wrong\n", bad, len(cases))
		return 1
	}
	fmt.Printf("selftest: all %d cases as expected\n", len(cases))
	return 0
}
