// Package comp wraps the real poryscript library API (lexer -> parser -> emitter)
// from /repo's working tree. It is the only seam the checks use.
package comp

import (
	"fmt"
	"io"
	"log"
	"runtime/debug"

	"github.com/huderlem/poryscript/emitter"
	"github.com/huderlem/poryscript/lexer"
	"github.com/huderlem/poryscript/parser"
)

func init() {
	// The compiler logs warnings (missing font file, ...) through the std logger.
	log.SetOutput(io.Discard)
}

// Opts are the options of one compilation.
type Opts struct {
	Optimize    bool
	LineMarkers bool
	Path        string
	Cmd         parser.CommandConfig
	FontPath    string
	FontID      string
	MaxLen      int
	Switches    map[string]string
	Lint        bool
}

// Result of one compilation. Exactly one of (Err == nil) / (Err != nil) holds
// unless Panic is set.
type Result struct {
	Out   string
	Err   error
	Panic string // non-empty when the compiler panicked (value + stack)
}

// IsParseError reports whether the error is a located parser.ParseError.
func (r Result) ParseErr() (parser.ParseError, bool) {
	pe, ok := r.Err.(parser.ParseError)
	return pe, ok
}

// Compile runs the real compiler on src.
func Compile(src string, o Opts) (res Result) {
	defer func() {
		if x := recover(); x != nil {
			res = Result{Panic: fmt.Sprintf("%v\n%s", x, debug.Stack())}
		}
	}()
	var p *parser.Parser
	if o.Lint {
		p = parser.NewLintParser(lexer.New(src), o.Cmd)
	} else {
		p = parser.New(lexer.New(src), o.Cmd, o.FontPath, o.FontID, o.MaxLen, o.Switches)
	}
	prog, err := p.ParseProgram()
	if err != nil {
		return Result{Err: err}
	}
	if o.Lint {
		return Result{}
	}
	out, err := emitter.New(prog, o.Optimize, o.LineMarkers, o.Path).Emit()
	if err != nil {
		return Result{Err: err}
	}
	return Result{Out: out}
}

// IntPtr is a helper for AutoVarCommand.VarNameArgPosition.
func IntPtr(i int) *int { return &i }
