package dict

// HashCollisions: pairs of different strings that have the same digest under a common non-cryptographic 64-bit hash.
// A de-duplication keyed by such a digest instead of the content merges the two. (32-bit digests collide in the mass
// files by themselves; 64-bit ones need a prepared pair.) The FNV pairs were found with tools/fnvcollide; both FNV
// variants absorb bytes in sequence, so the digests stay equal when the same suffix (a terminator) is appended.
var HashCollisions = []struct{ Hash, A, B string }{
	{"FNV-1a 64", "6f98c950bd676157", "cfce3eaa8d97691a"},
	{"FNV-1 64", "7a8273bbf10d1bb5", "47762d0b459da7a4"},
	{"polynomial base 31 (any width)", "Aa", "BB"},
	{"polynomial base 31 (any width)", "textAaAa", "textBBBB"},
	{"polynomial base 33 / djb2 (any width)", "b0", "aQ"}, // 33*'b'+'0' = 33*'a'+'Q'
}
