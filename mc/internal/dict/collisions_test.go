package dict

import (
	"hash/fnv"
	"testing"
)

func TestHashCollisions(t *testing.T) {
	poly := func(s string, base uint64) uint64 {
		h := uint64(0)
		for i := 0; i < len(s); i++ {
			h = h*base + uint64(s[i])
		}
		return h
	}
	for _, c := range HashCollisions {
		if c.A == c.B {
			t.Fatalf("%s: equal strings", c.Hash)
		}
		var a, b uint64
		switch c.Hash {
		case "FNV-1a 64":
			h := fnv.New64a()
			h.Write([]byte(c.A))
			a = h.Sum64()
			h.Reset()
			h.Write([]byte(c.B))
			b = h.Sum64()
		case "FNV-1 64":
			h := fnv.New64()
			h.Write([]byte(c.A))
			a = h.Sum64()
			h.Reset()
			h.Write([]byte(c.B))
			b = h.Sum64()
		case "polynomial base 31 (any width)":
			a, b = poly(c.A, 31), poly(c.B, 31)
		default:
			a, b = poly(c.A, 33), poly(c.B, 33)
		}
		if a != b {
			t.Errorf("%s: %q and %q do not collide (%x, %x)", c.Hash, c.A, c.B, a, b)
		}
	}
}
