// Package dict derives a dictionary of "magic" spellings from the source under
// test: every string and rune literal of the non-test Go files of the compiler
// packages. Sentinels the implementation compares against (keywords, "default",
// "step_end", "ITEM_NONE", "TEST", terminators, special runes) are exactly the
// values a small hand-written alphabet is most likely to lack, and a change to
// the source that introduces a new sentinel brings it into the dictionary of
// the next run. The dictionary only widens alphabets; every oracle stays the
// generator's own.
package dict

import (
	"go/ast"
	"go/parser"
	"go/token"
	"os"
	"path/filepath"
	"sort"
	"strconv"
	"strings"
	"unicode"
	"unicode/utf8"
)

// Entry is one literal of the source under test.
type Entry struct {
	Text   string
	IsRune bool
}

// Load parses the compiler packages under repo and returns their literals, sorted, without duplicates.
func Load(repo string) []Entry {
	seen := map[string]Entry{}
	for _, pkg := range []string{"lexer", "parser", "emitter", "ast", "token", "."} {
		dir := filepath.Join(repo, pkg)
		ents, err := os.ReadDir(dir)
		if err != nil {
			continue
		}
		for _, e := range ents {
			n := e.Name()
			if e.IsDir() || !strings.HasSuffix(n, ".go") || strings.HasSuffix(n, "_test.go") {
				continue
			}
			fset := token.NewFileSet()
			f, err := parser.ParseFile(fset, filepath.Join(dir, n), nil, 0)
			if err != nil {
				continue
			}
			ast.Inspect(f, func(nd ast.Node) bool {
				// import paths and struct tags are not values the code compares input with
				switch x := nd.(type) {
				case *ast.ImportSpec:
					return false
				case *ast.Field:
					if x.Tag != nil {
						for _, nm := range x.Names {
							_ = nm
						}
					}
				case *ast.BasicLit:
					switch x.Kind {
					case token.STRING:
						if s, err := strconv.Unquote(x.Value); err == nil {
							seen["s"+s] = Entry{Text: s}
						}
					case token.CHAR:
						if s, err := strconv.Unquote(x.Value); err == nil {
							seen["r"+s] = Entry{Text: s, IsRune: true}
						}
					}
				}
				return true
			})
		}
	}
	var out []Entry
	for _, e := range seen {
		out = append(out, e)
	}
	sort.Slice(out, func(i, j int) bool {
		if out[i].Text != out[j].Text {
			return out[i].Text < out[j].Text
		}
		return !out[i].IsRune && out[j].IsRune
	})
	return out
}

// Words returns the literals that are single "words": 1..maxLen bytes, valid UTF-8, no white space or control characters.
func Words(es []Entry, maxLen int) []string {
	var out []string
	last := ""
	for _, e := range es {
		s := e.Text
		if s == "" || len(s) > maxLen || !utf8.ValidString(s) || s == last {
			continue
		}
		ok := true
		for _, r := range s {
			if unicode.IsSpace(r) || unicode.IsControl(r) {
				ok = false
			}
		}
		if ok {
			out = append(out, s)
			last = s
		}
	}
	return out
}

// Identifiers returns the literals that lex as one identifier (letters, digits, '_', not starting with a digit).
func Identifiers(es []Entry, maxLen int) []string {
	var out []string
	for _, w := range Words(es, maxLen) {
		ok := true
		for i, r := range w {
			if !(r == '_' || unicode.IsLetter(r) || (i > 0 && unicode.IsDigit(r))) {
				ok = false
			}
		}
		if ok {
			out = append(out, w)
		}
	}
	return out
}

// Runes returns every distinct rune that occurs as a rune literal or as a one-rune string literal.
func Runes(es []Entry) []rune {
	seen := map[rune]bool{}
	var out []rune
	for _, e := range es {
		if utf8.RuneCountInString(e.Text) == 1 {
			r, _ := utf8.DecodeRuneInString(e.Text)
			if r != utf8.RuneError && !seen[r] {
				seen[r] = true
				out = append(out, r)
			}
		}
	}
	sort.Slice(out, func(i, j int) bool { return out[i] < out[j] })
	return out
}

// CategoryRunes returns one non-ASCII representative of every Unicode general category known to the unicode package
// (Lu, Ll, Lt, Lm, Lo, Mn, Mc, Me, Nd, Nl, No, Pc, Pd, Ps, Pe, Pi, Pf, Po, Sm, Sc, Sk, So, Zs, Zl, Zp, Cf, Co, ...),
// every non-ASCII White_Space rune, and one rune outside the basic multilingual plane: the equivalence classes of the
// predicates (unicode.IsLetter, IsDigit, IsSpace, In(...)) a lexer or text formatter can branch on.
func CategoryRunes() []rune {
	seen := map[rune]bool{}
	var out []rune
	add := func(r rune) {
		if !seen[r] && r != utf8.RuneError && utf8.ValidRune(r) {
			seen[r] = true
			out = append(out, r)
		}
	}
	var names []string
	for n := range unicode.Categories {
		if len(n) == 2 {
			names = append(names, n)
		}
	}
	sort.Strings(names)
	for _, n := range names {
		if n == "Cs" { // surrogates are not valid in UTF-8
			continue
		}
		t := unicode.Categories[n]
		found := false
		for _, r16 := range t.R16 {
			for r := rune(r16.Lo); r <= rune(r16.Hi); r += rune(r16.Stride) {
				if r >= 0x80 {
					add(r)
					found = true
					break
				}
			}
			if found {
				break
			}
		}
		if !found {
			for _, r32 := range t.R32 {
				add(rune(r32.Lo))
				break
			}
		}
	}
	for _, r16 := range unicode.White_Space.R16 {
		for r := rune(r16.Lo); r <= rune(r16.Hi); r += rune(r16.Stride) {
			if r >= 0x80 {
				add(r)
			}
		}
	}
	add(0x1F600) // astral symbol
	add(0x20000) // astral letter
	add(0xFE0F)  // variation selector
	add(0x0301)  // combining acute accent
	sort.Slice(out, func(i, j int) bool { return out[i] < out[j] })
	return out
}
