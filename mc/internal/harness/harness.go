// Package harness (E9): sharding, evidence, violations, replay files, findings.
package harness

import (
	"bufio"
	"crypto/sha1"
	"encoding/hex"
	"encoding/json"
	"fmt"
	"os"
	"path/filepath"
	"runtime"
	"runtime/debug"
	"sort"
	"strconv"
	"strings"
	"sync"
	"sync/atomic"
	"time"
)

// Root is the verification directory: the working directory of the check
// (run.sh cds to its own directory), so that a background snapshot run never
// writes into /verif itself.
var Root = func() string {
	if d := os.Getenv("PMC_ROOT"); d != "" {
		return d
	}
	if d, err := os.Getwd(); err == nil {
		return d
	}
	return "/verif"
}()

// hangLimit is the watchdog limit for one case of a Parallel loop.
const hangLimit = 5 * time.Minute

// Violation is one failing case.
type Violation struct {
	Sig     string      // canonical trigger+outcome signature used for dedup and findings matching
	Summary string      // one line for humans
	Replay  interface{} // JSON-able replay payload (must contain everything to re-run the case)
	Recheck func() bool // re-executes the case in isolation; true = still fails
}

// Run is one execution of one check.
type Run struct {
	ID       string
	Level    string
	Tier     string
	Seed     int
	Start    time.Time
	Deadline time.Time
	Workers  int

	mu         sync.Mutex
	cov        map[string]interface{}
	counters   sync.Map // name -> *int64
	samples    []interface{}
	maxSamples int
	viol       []Violation
	violSeen   map[string]int
	assume     []string
	notes      []string
	exhaustive bool
	capped     atomic.Bool
	// Describe, when set, renders case i of the current Parallel loop for the hang watchdog.
	Describe func(i uint64) string
	// HangLimit overrides the watchdog limit for one case (loops whose cases are whole subprocess runs).
	HangLimit   time.Duration
	samplesFull atomic.Bool
	nviol       atomic.Int64
}

func NewRun(id, level, tier string, budget time.Duration) *Run {
	debug.SetGCPercent(800)
	seed, _ := strconv.Atoi(os.Getenv("VERIF_SEED"))
	r := &Run{ID: id, Level: level, Tier: tier, Seed: seed, Start: time.Now(), Workers: runtime.GOMAXPROCS(0),
		cov: map[string]interface{}{}, maxSamples: 6, violSeen: map[string]int{}, exhaustive: true}
	if s := os.Getenv("VERIF_BUDGET_S"); s != "" {
		if n, err := strconv.Atoi(s); err == nil {
			budget = time.Duration(n) * time.Second
		}
	}
	r.Deadline = r.Start.Add(budget)
	return r
}

// Expired reports whether the internal wall-clock budget is used up. A tier
// that stops because of it reports exhaustive:false and exits 0 (R2).
func (r *Run) Expired() bool {
	if time.Now().After(r.Deadline) {
		r.capped.Store(true)
		return true
	}
	return false
}

func (r *Run) Capped() bool { return r.capped.Load() }

// Counter returns a named atomic counter that ends up in coverage.
func (r *Run) Counter(name string) *int64 {
	if c, ok := r.counters.Load(name); ok {
		return c.(*int64)
	}
	c, _ := r.counters.LoadOrStore(name, new(int64))
	return c.(*int64)
}

func (r *Run) Add(name string, n int64) { atomic.AddInt64(r.Counter(name), n) }

func (r *Run) Get(name string) int64 { return atomic.LoadInt64(r.Counter(name)) }

func (r *Run) Set(key string, v interface{}) {
	r.mu.Lock()
	r.cov[key] = v
	r.mu.Unlock()
}

func (r *Run) Assume(s ...string) { r.mu.Lock(); r.assume = append(r.assume, s...); r.mu.Unlock() }

func (r *Run) Note(format string, a ...interface{}) {
	r.mu.Lock()
	r.notes = append(r.notes, fmt.Sprintf(format, a...))
	r.mu.Unlock()
}

func (r *Run) NotExhaustive(why string) {
	r.mu.Lock()
	r.exhaustive = false
	r.notes = append(r.notes, "not exhaustive: "+why)
	r.mu.Unlock()
}

// Sample keeps a few of the actual cases for the evidence file.
func (r *Run) Sample(v interface{}) {
	r.mu.Lock()
	if len(r.samples) < r.maxSamples {
		r.samples = append(r.samples, v)
	} else {
		r.samplesFull.Store(true)
	}
	r.mu.Unlock()
}

func (r *Run) WantSample() bool { return !r.samplesFull.Load() }

// Report records a violation (deduplicated by signature; the first, i.e.
// smallest, instance of each signature is kept).
func (r *Run) Report(v Violation) {
	r.mu.Lock()
	defer r.mu.Unlock()
	if _, ok := r.violSeen[v.Sig]; ok {
		r.violSeen[v.Sig]++
		return
	}
	r.violSeen[v.Sig] = 1
	r.viol = append(r.viol, v)
	r.nviol.Add(1)
}

func (r *Run) ViolationCount() int { return int(r.nviol.Load()) }

// Parallel runs f(worker, i) for every i in [0,total) on all cores, in chunks.
// It stops early when the budget expires (reported as not exhaustive) or when
// more than maxViol distinct violations have been collected.
func (r *Run) Parallel(total uint64, f func(worker int, i uint64)) (completed bool) {
	var next uint64
	const chunk = 64
	var wg sync.WaitGroup
	var stop atomic.Bool
	// Watchdog: a case that does not return within hangLimit is a hang of the
	// code under test (a case normally costs microseconds to a few seconds; the
	// limit is minutes so that a loaded machine cannot trip it). It cannot be
	// interrupted in-process, so it is reported and the process exits.
	type slot struct {
		start atomic.Int64
		index atomic.Uint64
	}
	slots := make([]slot, r.Workers)
	done := make(chan struct{})
	describe := r.Describe
	hangLimit := hangLimit
	if r.HangLimit > 0 {
		hangLimit = r.HangLimit
	}
	go func() {
		t := time.NewTicker(time.Second)
		defer t.Stop()
		for {
			select {
			case <-done:
				return
			case <-t.C:
				now := time.Now().UnixNano()
				for w := range slots {
					st := slots[w].start.Load()
					if st != 0 && now-st > int64(hangLimit) {
						i := slots[w].index.Load()
						what := fmt.Sprintf("case index %d", i)
						if describe != nil {
							what = describe(i)
						}
						r.Report(Violation{Sig: r.ID + ":hang", Summary: "the code under test did not return within " + hangLimit.String() + " on: " + what, Replay: map[string]interface{}{"case": what, "problem": "hang"}})
						code := r.Finish(r.Get("evaluations"), r.Get("nontrivial"), "aborted by the hang watchdog; counts are partial")
						_ = code
						os.Exit(1)
					}
				}
			}
		}
	}()
	defer close(done)
	for w := 0; w < r.Workers; w++ {
		wg.Add(1)
		go func(w int) {
			defer wg.Done()
			for !stop.Load() {
				lo := atomic.AddUint64(&next, chunk) - chunk
				if lo >= total {
					return
				}
				hi := lo + chunk
				if hi > total {
					hi = total
				}
				for i := lo; i < hi; i++ {
					slots[w].index.Store(i)
					slots[w].start.Store(time.Now().UnixNano())
					f(w, i)
					slots[w].start.Store(0)
				}
				if r.Expired() || r.ViolationCount() > 200 {
					stop.Store(true)
				}
			}
		}(w)
	}
	wg.Wait()
	return !stop.Load()
}

// ---------------------------------------------------------------------------
// Findings.

type Finding struct {
	Status   string // open | fixed
	Property string
	Sig      string
	Text     string
}

// LoadFindings reads /verif/known_findings.txt. Lines:
//
//	open: property=<id> sig=<signature> :: <what fails>
//	fixed: property=<id> <commit> <what failed>
func LoadFindings() []Finding {
	f, err := os.Open(filepath.Join(Root, "known_findings.txt"))
	if err != nil {
		return nil
	}
	defer f.Close()
	var out []Finding
	sc := bufio.NewScanner(f)
	for sc.Scan() {
		line := strings.TrimSpace(sc.Text())
		if line == "" || strings.HasPrefix(line, "#") {
			continue
		}
		if strings.HasPrefix(line, "open:") {
			rest := strings.TrimSpace(strings.TrimPrefix(line, "open:"))
			fd := Finding{Status: "open"}
			if i := strings.Index(rest, " :: "); i >= 0 {
				fd.Text = rest[i+4:]
				rest = rest[:i]
			}
			for _, kv := range strings.Fields(rest) {
				if strings.HasPrefix(kv, "property=") {
					fd.Property = strings.TrimPrefix(kv, "property=")
				}
				if strings.HasPrefix(kv, "sig=") {
					fd.Sig = strings.TrimPrefix(kv, "sig=")
				}
			}
			out = append(out, fd)
		}
		// "fixed:" entries suppress nothing.
	}
	return out
}

// ---------------------------------------------------------------------------
// Finish: recheck, match findings, write replays and evidence, print verdict.

func (r *Run) Finish(evaluations, nontrivial int64, rule string) int {
	findings := LoadFindings()
	sort.Slice(r.viol, func(i, j int) bool { return r.viol[i].Sig < r.viol[j].Sig })
	exit := 0
	reported := 0
	known := 0
	for _, v := range r.viol {
		// R4: a violation must reproduce 5 times in isolation.
		stable := true
		if v.Recheck != nil {
			for k := 0; k < 5; k++ {
				if !v.Recheck() {
					stable = false
					break
				}
			}
		}
		if !stable {
			// Not reproducible: a harness nondeterminism bug, never a verdict on the code.
			fmt.Printf("HARNESS-ERROR: property=%s unstable case dropped: %s\n", r.ID, v.Summary)
			r.NotExhaustive("an unstable case was dropped: " + v.Sig)
			continue
		}
		matched := false
		for _, fd := range findings {
			if fd.Property == r.ID && fd.Sig == v.Sig {
				fmt.Printf("KNOWN-FINDING: property=%s %s (%d inputs; sig=%s)\n", r.ID, fd.Text, r.violSeen[v.Sig], v.Sig)
				matched = true
				known++
				break
			}
		}
		if matched {
			continue
		}
		path := r.writeReplay(v)
		fmt.Printf("VIOLATION property=%s replay=%s\n", r.ID, path)
		fmt.Printf("  sig=%s (%d inputs)\n  %s\n", v.Sig, r.violSeen[v.Sig], v.Summary)
		reported++
		exit = 1
	}
	r.writeEvidence(evaluations, nontrivial, rule, reported, known)
	return exit
}

func (r *Run) writeReplay(v Violation) string {
	dir := filepath.Join(Root, "replays", r.ID)
	os.MkdirAll(dir, 0o755)
	h := sha1.Sum([]byte(v.Sig))
	path := filepath.Join(dir, hex.EncodeToString(h[:6])+".json")
	doc := map[string]interface{}{"property": r.ID, "sig": v.Sig, "summary": v.Summary, "case": v.Replay}
	b, _ := json.MarshalIndent(doc, "", " ")
	os.WriteFile(path, b, 0o644)
	return path
}

func (r *Run) writeEvidence(evaluations, nontrivial int64, rule string, reported, known int) {
	cov := map[string]interface{}{}
	for k, v := range r.cov {
		cov[k] = v
	}
	r.counters.Range(func(k, c interface{}) bool {
		cov[k.(string)] = atomic.LoadInt64(c.(*int64))
		return true
	})
	cov["evaluations"] = evaluations
	cov["distinct_nontrivial"] = nontrivial
	cov["rule"] = rule
	if len(r.samples) == 0 {
		r.samples = append(r.samples, "no sample recorded")
	}
	cov["samples"] = r.samples
	cov["exhaustive"] = r.exhaustive && !r.Capped()
	if r.Capped() {
		r.notes = append(r.notes, "internal wall-clock budget reached; only the levels listed as completed are covered")
	}
	if len(r.notes) > 0 {
		cov["notes"] = r.notes
	}
	cov["known_findings_matched"] = known
	doc := map[string]interface{}{
		"property_id": r.ID,
		"tier":        r.Tier,
		"seed":        r.Seed,
		"level":       r.Level,
		"coverage":    cov,
		"assumptions": r.assume,
		"wall_s":      time.Since(r.Start).Seconds(),
		"violations":  reported,
	}
	if r.assume == nil {
		doc["assumptions"] = []string{}
	}
	b, _ := json.MarshalIndent(doc, "", " ")
	os.MkdirAll(filepath.Join(Root, "evidence"), 0o755)
	os.WriteFile(filepath.Join(Root, "evidence", r.ID+".json"), b, 0o644)
}
