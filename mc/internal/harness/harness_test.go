package harness

import (
	"io"
	"os"
	"path/filepath"
	"strings"
	"testing"
	"time"
)

// The known-findings protocol: an "open:" entry turns exactly the violation with
// its signature into a KNOWN-FINDING line and exit 0; any other violation of the
// same property is still a VIOLATION with exit 1; "fixed:" entries suppress
// nothing; the file is never written at run time.
func TestKnownFindingsProtocol(t *testing.T) {
	dir := t.TempDir()
	old := Root
	Root = dir
	defer func() { Root = old }()
	findings := "# comment\nopen: property=T01 sig=T01:listed :: the listed input fails\nfixed: property=T01 deadbeef sig=T01:repaired what failed before\nopen: property=T02 sig=T01:other-property :: belongs to another property\n"
	os.WriteFile(filepath.Join(dir, "known_findings.txt"), []byte(findings), 0o644)

	run := func(sigs ...string) (int, string) {
		r := NewRun("T01", "model_checking", "quick", time.Minute)
		for _, s := range sigs {
			r.Report(Violation{Sig: s, Summary: "summary of " + s, Replay: map[string]string{"sig": s}})
		}
		stdout := os.Stdout
		pr, pw, _ := os.Pipe()
		os.Stdout = pw
		code := r.Finish(1, 1, "test")
		pw.Close()
		os.Stdout = stdout
		b, _ := io.ReadAll(pr)
		return code, string(b)
	}

	if code, out := run(); code != 0 || strings.Contains(out, "VIOLATION") || strings.Contains(out, "KNOWN-FINDING") {
		t.Fatalf("no violation: exit %d, output %q", code, out)
	}
	code, out := run("T01:listed")
	if code != 0 || !strings.Contains(out, "KNOWN-FINDING: property=T01 the listed input fails") || strings.Contains(out, "VIOLATION") {
		t.Fatalf("listed finding: exit %d, output %q", code, out)
	}
	code, out = run("T01:listed", "T01:new")
	if code != 1 || !strings.Contains(out, "KNOWN-FINDING: property=T01") || !strings.Contains(out, "VIOLATION property=T01 replay=") {
		t.Fatalf("listed + new: exit %d, output %q", code, out)
	}
	if code, out = run("T01:repaired"); code != 1 || !strings.Contains(out, "VIOLATION property=T01") {
		t.Fatalf("a fixed entry must not suppress: exit %d, output %q", code, out)
	}
	if code, out = run("T01:other-property"); code != 1 {
		t.Fatalf("an entry of another property must not suppress: exit %d, output %q", code, out)
	}
	after, _ := os.ReadFile(filepath.Join(dir, "known_findings.txt"))
	if string(after) != findings {
		t.Fatalf("the findings file was modified at run time")
	}
	// the replay named by the VIOLATION line exists
	matches, _ := filepath.Glob(filepath.Join(dir, "replays", "T01", "*.json"))
	if len(matches) == 0 {
		t.Fatalf("no replay file written")
	}
}
