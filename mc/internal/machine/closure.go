package machine

import "fmt"

// Static closure of a program as read from emitted assembly (C04).

// Refs returns every label referenced by a control instruction, with the pc.
func (p *Prog) Refs() map[string][]int {
	out := map[string][]int{}
	for pc := range p.Ins {
		in := &p.Ins[pc]
		switch in.Op {
		case OpGoto, OpIfFlag, OpIfCmp, OpIfReg, OpCase:
			out[in.Target] = append(out[in.Target], pc)
		}
	}
	return out
}

// RunOffs explores the static control-flow graph from every label and reports
// every way of falling through a block boundary (into the next script, into
// data or off the end of the file). All branches are taken as feasible.
func (p *Prog) RunOffs() []string {
	var problems []string
	seen := make([]bool, len(p.Ins)+1)
	reported := map[int]bool{}
	var stack []int
	for _, pc := range p.Labels {
		if pc < len(p.Ins) && !seen[pc] {
			seen[pc] = true
			stack = append(stack, pc)
		} else if pc >= len(p.Ins) && !reported[pc] {
			reported[pc] = true
			problems = append(problems, fmt.Sprintf("label %v is defined at the end of the file: execution started there runs off", p.LabelsAt[pc]))
		}
	}
	fall := func(from int) {
		to := from + 1
		if p.Boundary[to] {
			if !reported[to] {
				reported[to] = true
				what := "the end of the file"
				if to < len(p.Ins) || len(p.LabelsAt[to]) > 0 {
					what = fmt.Sprintf("%v", p.LabelsAt[to])
				}
				problems = append(problems, fmt.Sprintf("line %d (%s) falls through into %s", p.Ins[from].Line, p.Ins[from].String(), what))
			}
			return
		}
		if to < len(p.Ins) && !seen[to] {
			seen[to] = true
			stack = append(stack, to)
		}
	}
	jump := func(l string) {
		if pc, ok := p.Labels[l]; ok && pc < len(p.Ins) && !seen[pc] {
			seen[pc] = true
			stack = append(stack, pc)
		}
	}
	for len(stack) > 0 {
		pc := stack[len(stack)-1]
		stack = stack[:len(stack)-1]
		in := &p.Ins[pc]
		switch in.Op {
		case OpReturn, OpEnd, OpData, OpBad:
		case OpGoto:
			jump(in.Target)
		case OpIfFlag, OpIfCmp, OpIfReg, OpCase:
			jump(in.Target)
			fall(pc)
		default:
			fall(pc)
		}
	}
	return problems
}
