// Package machine is the abstract Gen-3 script-control machine shared by the
// reference lowering (E4) and the reader of the emitted assembly (E3/E5), and
// the explicit-state product explorer (E6).
package machine

import (
	"fmt"
	"sort"
	"strconv"
	"strings"
)

type Op uint8

const (
	OpCmd    Op = iota // observable command line
	OpGoto             // goto L
	OpIfFlag           // goto_if_set / goto_if_unset F, L
	OpCmp              // compare V, n / compare_var_to_value V, n
	OpIfCmp            // goto_if_eq.. L
	OpChk              // checktrainerflag T
	OpIfReg            // goto_if 0|1, L
	OpSwitch           // switch V
	OpCase             // case n, L
	OpReturn           // return
	OpEnd              // end
	OpData             // data directive: executing it is a run-off
	OpBad              // unreadable control instruction
)

type Rel uint8

const (
	RelEQ Rel = iota
	RelNE
	RelLT
	RelLE
	RelGT
	RelGE
)

var relNames = [...]string{"eq", "ne", "lt", "le", "gt", "ge"}

func (r Rel) String() string { return relNames[r] }

// Holds reports whether "v r c".
func (r Rel) Holds(v, c int) bool {
	switch r {
	case RelEQ:
		return v == c
	case RelNE:
		return v != c
	case RelLT:
		return v < c
	case RelLE:
		return v <= c
	case RelGT:
		return v > c
	default:
		return v >= c
	}
}

type Ins struct {
	Op     Op
	Text   string // OpCmd: normalised command line; OpBad: raw text
	Name   string // flag / var / trainer operand
	Const  int    // OpCmp, OpCase constant
	Strict bool   // OpCmp: compare_var_to_value
	Want   bool   // OpIfFlag: jump if set; OpIfReg: jump if 1
	Rel    Rel    // OpIfCmp
	Target string // label operand
	Line   int    // 1-based line in the asm text (0 for reference programs)
}

// Prog is a program of the abstract machine.
type Prog struct {
	Ins      []Ins
	Labels   map[string]int  // label -> pc (index of the next instruction)
	DupLabel map[string]bool // labels defined more than once (reader only)
	Boundary []bool          // len(Ins)+1: falling through INTO this pc leaves the current block
	LabelsAt map[int][]string
}

func NewProg() *Prog {
	return &Prog{Labels: map[string]int{}, DupLabel: map[string]bool{}, LabelsAt: map[int][]string{}}
}

func (p *Prog) AddLabel(name string, boundary bool) {
	pc := len(p.Ins)
	if _, ok := p.Labels[name]; ok {
		p.DupLabel[name] = true
	} else {
		p.Labels[name] = pc
	}
	p.LabelsAt[pc] = append(p.LabelsAt[pc], name)
	for len(p.Boundary) <= pc {
		p.Boundary = append(p.Boundary, false)
	}
	if boundary {
		p.Boundary[pc] = true
	}
}

func (p *Prog) Add(in Ins) {
	p.Ins = append(p.Ins, in)
	for len(p.Boundary) <= len(p.Ins) {
		p.Boundary = append(p.Boundary, false)
	}
}

// Finish marks end of file as a boundary.
func (p *Prog) Finish() {
	for len(p.Boundary) <= len(p.Ins) {
		p.Boundary = append(p.Boundary, false)
	}
	p.Boundary[len(p.Ins)] = true
}

func (p *Prog) String() string {
	var sb strings.Builder
	for pc := 0; pc <= len(p.Ins); pc++ {
		for _, l := range p.LabelsAt[pc] {
			fmt.Fprintf(&sb, "%s:\n", l)
		}
		if pc < len(p.Ins) {
			fmt.Fprintf(&sb, "  %3d %s\n", pc, p.Ins[pc].String())
		}
	}
	return sb.String()
}

func (in Ins) String() string {
	switch in.Op {
	case OpCmd:
		return "CMD " + in.Text
	case OpGoto:
		return "goto " + in.Target
	case OpIfFlag:
		if in.Want {
			return "goto_if_set " + in.Name + ", " + in.Target
		}
		return "goto_if_unset " + in.Name + ", " + in.Target
	case OpCmp:
		if in.Strict {
			return fmt.Sprintf("compare_var_to_value %s, %d", in.Name, in.Const)
		}
		return fmt.Sprintf("compare %s, %d", in.Name, in.Const)
	case OpIfCmp:
		return "goto_if_" + in.Rel.String() + " " + in.Target
	case OpChk:
		return "checktrainerflag " + in.Name
	case OpIfReg:
		if in.Want {
			return "goto_if 1, " + in.Target
		}
		return "goto_if 0, " + in.Target
	case OpSwitch:
		return "switch " + in.Name
	case OpCase:
		return fmt.Sprintf("case %d, %s", in.Const, in.Target)
	case OpReturn:
		return "return"
	case OpEnd:
		return "end"
	case OpData:
		return "DATA " + in.Text
	default:
		return "BAD " + in.Text
	}
}

// ---------------------------------------------------------------------------
// Reader of emitted assembly text (E3, control subset).

// ReadOpts tells the reader which label definitions are internal to a script
// block (chunk labels of a known owner and user labels written inside scripts);
// every other label definition starts a new block.
type ReadOpts struct {
	Owners     []string        // script names (incl. inline map script names)
	UserLabels map[string]bool // labels the author wrote inside scripts
	DataLabels map[string]bool // labels of data blocks (text, movement, mart, mapscripts headers/tables, raw data)
}

func isHoistedLabel(name string, owners []string) bool {
	for _, o := range owners {
		for _, mid := range []string{"_Text_", "_Movement_"} {
			pre := o + mid
			if len(name) > len(pre) && strings.HasPrefix(name, pre) {
				ok := true
				for _, c := range name[len(pre):] {
					if c < '0' || c > '9' {
						ok = false
					}
				}
				if ok {
					return true
				}
			}
		}
	}
	return false
}

func isChunkLabel(name string, owners []string) bool {
	for _, o := range owners {
		if len(name) > len(o)+1 && strings.HasPrefix(name, o) && name[len(o)] == '_' {
			rest := name[len(o)+1:]
			ok := true
			for _, c := range rest {
				if c < '0' || c > '9' {
					ok = false
					break
				}
			}
			if ok {
				return true
			}
		}
	}
	return false
}

// ReadAsm parses emitted assembly into a machine program.
func ReadAsm(text string, ro ReadOpts) *Prog {
	p := NewProg()
	lines := strings.Split(text, "\n")
	inData := false
	for i, raw := range lines {
		line := strings.TrimRight(raw, "\r")
		t := strings.TrimSpace(line)
		if t == "" {
			continue
		}
		if strings.HasPrefix(t, "# ") {
			continue // line marker
		}
		if !strings.HasPrefix(line, "\t") && !strings.HasPrefix(line, " ") && strings.HasSuffix(t, ":") {
			name := strings.TrimSuffix(strings.TrimSuffix(t, ":"), ":")
			internal := ro.UserLabels[name] || isChunkLabel(name, ro.Owners)
			p.AddLabel(name, !internal)
			inData = ro.DataLabels[name] || isHoistedLabel(name, ro.Owners)
			continue
		}
		in := parseIns(t)
		if inData {
			in = Ins{Op: OpData, Text: t}
		}
		in.Line = i + 1
		p.Add(in)
	}
	p.Finish()
	return p
}

func split2(s string) (string, string, bool) {
	i := strings.Index(s, ", ")
	if i < 0 {
		return s, "", false
	}
	return s[:i], s[i+2:], true
}

// evalInt evaluates a constant integer expression as the compiler prints it:
// space-separated tokens over integers, + * and parentheses.
func evalInt(s string) (int, bool) {
	toks := strings.Fields(s)
	pos := 0
	var expr func() (int, bool)
	atom := func() (int, bool) {
		if pos >= len(toks) {
			return 0, false
		}
		t := toks[pos]
		pos++
		if t == "(" {
			v, ok := expr()
			if !ok || pos >= len(toks) || toks[pos] != ")" {
				return 0, false
			}
			pos++
			return v, true
		}
		switch t {
		case "TRUE":
			return 1, true
		case "FALSE":
			return 0, true
		}
		n, err := strconv.ParseInt(t, 0, 64)
		return int(n), err == nil
	}
	term := func() (int, bool) {
		v, ok := atom()
		for ok && pos < len(toks) && toks[pos] == "*" {
			pos++
			var w int
			w, ok = atom()
			v *= w
		}
		return v, ok
	}
	expr = func() (int, bool) {
		v, ok := term()
		for ok && pos < len(toks) && toks[pos] == "+" {
			pos++
			var w int
			w, ok = term()
			v += w
		}
		return v, ok
	}
	v, ok := expr()
	return v, ok && pos == len(toks)
}

func parseIns(t string) Ins {
	word, rest := t, ""
	if i := strings.IndexAny(t, " \t"); i >= 0 {
		word, rest = t[:i], strings.TrimSpace(t[i+1:])
	}
	bad := Ins{Op: OpBad, Text: t}
	switch word {
	case "goto":
		if rest == "" || strings.ContainsAny(rest, " ,") {
			return bad
		}
		return Ins{Op: OpGoto, Target: rest}
	case "goto_if_set", "goto_if_unset":
		a, b, ok := split2(rest)
		if !ok || a == "" || b == "" {
			return bad
		}
		return Ins{Op: OpIfFlag, Name: a, Target: b, Want: word == "goto_if_set"}
	case "compare", "compare_var_to_value":
		a, b, ok := split2(rest)
		if !ok || a == "" {
			return bad
		}
		n, ok := evalInt(b)
		if !ok {
			return bad
		}
		return Ins{Op: OpCmp, Name: a, Const: n, Strict: word == "compare_var_to_value"}
	case "goto_if_eq", "goto_if_ne", "goto_if_lt", "goto_if_le", "goto_if_gt", "goto_if_ge":
		if rest == "" || strings.ContainsAny(rest, " ,") {
			return bad
		}
		var r Rel
		for i, n := range relNames {
			if word == "goto_if_"+n {
				r = Rel(i)
			}
		}
		return Ins{Op: OpIfCmp, Rel: r, Target: rest}
	case "checktrainerflag":
		if rest == "" {
			return bad
		}
		return Ins{Op: OpChk, Name: rest}
	case "goto_if":
		a, b, ok := split2(rest)
		if !ok || (a != "0" && a != "1") || b == "" {
			return bad
		}
		return Ins{Op: OpIfReg, Want: a == "1", Target: b}
	case "switch":
		if rest == "" {
			return bad
		}
		return Ins{Op: OpSwitch, Name: rest}
	case "case":
		a, b, ok := split2(rest)
		if !ok || b == "" {
			return bad
		}
		n, ok := evalInt(a)
		if !ok {
			return bad
		}
		return Ins{Op: OpCase, Const: n, Target: b}
	case "return":
		if rest == "" {
			return Ins{Op: OpReturn}
		}
	case "end":
		if rest == "" {
			return Ins{Op: OpEnd}
		}
	case "map_script", "map_script_2":
		return Ins{Op: OpData, Text: t}
	}
	if strings.HasPrefix(word, ".") {
		return Ins{Op: OpData, Text: t}
	}
	return Ins{Op: OpCmd, Text: t}
}

// ---------------------------------------------------------------------------
// Interpreter.

// Register values.
const (
	RegUnset int8 = iota
	RegLT
	RegEQ
	RegGT
	RegFalse
	RegTrue
)

type State struct {
	PC       int
	AfterCmd bool // arrived by falling through after a command; boundary not yet checked
	Reg      int8
	LatchSet bool
	Latch    int
}

type VarKind uint8

const (
	KFlag VarKind = iota
	KVar
	KTrainer
)

type VarKey struct {
	Kind VarKind
	Name string
}

func (k VarKey) String() string {
	return [...]string{"flag", "var", "trainer"}[k.Kind] + "(" + k.Name + ")"
}

type EvKind uint8

const (
	EvCmd EvKind = iota
	EvReturn
	EvEnd
	EvOut     // jump to a label that is not defined in the file
	EvDiverge // silent infinite loop
	EvRunOff  // fell out of the block / into data
	EvBad     // machine misuse (register read before set, unreadable instruction)
	EvRead    // lockstep only: an operand is read
)

type Event struct {
	Kind EvKind
	Text string
}

func (e Event) String() string {
	return [...]string{"cmd", "return", "end", "out", "diverge", "runoff", "bad", "read"}[e.Kind] + "[" + e.Text + "]"
}

// Step is what Next returns: either an observable event (Read==false) with the
// state after it, or a pending read (Read==true) with the state AT the reading
// instruction.
type Step struct {
	Read bool
	Ev   Event
	St   State
	Var  VarKey
	Desc string
}

// Entry returns the state at label name.
func (p *Prog) Entry(name string) (State, bool) {
	pc, ok := p.Labels[name]
	return State{PC: pc}, ok
}

func (p *Prog) jump(st State, target string) (State, *Event) {
	pc, ok := p.Labels[target]
	if !ok {
		return st, &Event{Kind: EvOut, Text: target}
	}
	st.PC = pc
	return st, nil
}

// advance moves to pc+1, reporting a run-off if that crosses a block boundary.
func (p *Prog) fall(st State) (State, *Event) {
	st.PC++
	if p.Boundary[st.PC] {
		return st, &Event{Kind: EvRunOff, Text: fmt.Sprintf("fell through into %v", p.LabelsAt[st.PC])}
	}
	return st, nil
}

// Next runs silently from st until an observable event or a read.
func (p *Prog) Next(st State) Step {
	steps := 0
	if st.AfterCmd {
		st.AfterCmd = false
		if p.Boundary[st.PC] {
			return Step{Ev: Event{Kind: EvRunOff, Text: fmt.Sprintf("fell through into %v", p.LabelsAt[st.PC])}, St: st}
		}
	}
	for {
		if st.PC >= len(p.Ins) {
			return Step{Ev: Event{Kind: EvRunOff, Text: "end of file"}, St: st}
		}
		steps++
		if steps > 2*len(p.Ins)+4 {
			return Step{Ev: Event{Kind: EvDiverge}, St: st}
		}
		in := &p.Ins[st.PC]
		var ev *Event
		switch in.Op {
		case OpCmd:
			// The command is observable; whether falling through after it
			// crosses a block boundary is checked when execution resumes.
			return Step{Ev: Event{Kind: EvCmd, Text: in.Text}, St: State{PC: st.PC + 1, AfterCmd: true}}
		case OpGoto:
			st, ev = p.jump(st, in.Target)
		case OpIfFlag:
			return Step{Read: true, St: st, Var: VarKey{KFlag, in.Name}, Desc: "flag " + in.Name}
		case OpCmp:
			d := "var " + in.Name
			if in.Strict {
				d += " strict"
			}
			return Step{Read: true, St: st, Var: VarKey{KVar, in.Name}, Desc: d}
		case OpChk:
			return Step{Read: true, St: st, Var: VarKey{KTrainer, in.Name}, Desc: "trainer " + in.Name}
		case OpSwitch:
			return Step{Read: true, St: st, Var: VarKey{KVar, in.Name}, Desc: "switch " + in.Name}
		case OpIfCmp:
			var c int
			switch st.Reg {
			case RegLT:
				c = -1
			case RegEQ:
				c = 0
			case RegGT:
				c = 1
			default:
				return Step{Ev: Event{Kind: EvBad, Text: "goto_if_" + in.Rel.String() + " without a preceding compare"}, St: st}
			}
			if in.Rel.Holds(c, 0) {
				st, ev = p.jump(st, in.Target)
			} else {
				st, ev = p.fall(st)
			}
		case OpIfReg:
			if st.Reg != RegFalse && st.Reg != RegTrue {
				return Step{Ev: Event{Kind: EvBad, Text: "goto_if without a preceding checktrainerflag"}, St: st}
			}
			if (st.Reg == RegTrue) == in.Want {
				st, ev = p.jump(st, in.Target)
			} else {
				st, ev = p.fall(st)
			}
		case OpCase:
			if !st.LatchSet {
				return Step{Ev: Event{Kind: EvBad, Text: "case without a preceding switch"}, St: st}
			}
			if st.Latch == in.Const {
				st, ev = p.jump(st, in.Target)
			} else {
				st, ev = p.fall(st)
			}
		case OpReturn:
			return Step{Ev: Event{Kind: EvReturn}, St: st}
		case OpEnd:
			return Step{Ev: Event{Kind: EvEnd}, St: st}
		case OpData:
			return Step{Ev: Event{Kind: EvRunOff, Text: "executed data: " + in.Text}, St: st}
		default:
			return Step{Ev: Event{Kind: EvBad, Text: "unreadable instruction: " + in.Text}, St: st}
		}
		if ev != nil {
			return Step{Ev: *ev, St: st}
		}
	}
}

// Apply executes the read instruction at st with the environment's value.
func (p *Prog) Apply(st State, val int) (State, *Event) {
	in := &p.Ins[st.PC]
	switch in.Op {
	case OpIfFlag:
		if (val != 0) == in.Want {
			return p.jump(st, in.Target)
		}
		return p.fall(st)
	case OpCmp:
		switch {
		case val < in.Const:
			st.Reg = RegLT
		case val == in.Const:
			st.Reg = RegEQ
		default:
			st.Reg = RegGT
		}
		return p.fall(st)
	case OpChk:
		if val != 0 {
			st.Reg = RegTrue
		} else {
			st.Reg = RegFalse
		}
		return p.fall(st)
	case OpSwitch:
		st.LatchSet, st.Latch = true, val
		return p.fall(st)
	}
	panic("Apply on a non-read instruction")
}

// Consts returns, per var, the constants it is compared with.
func (p *Prog) Consts(into map[string]map[int]bool) {
	last := ""
	for i := range p.Ins {
		in := &p.Ins[i]
		switch in.Op {
		case OpCmp:
			add(into, in.Name, in.Const)
		case OpSwitch:
			last = in.Name
			add(into, in.Name, 0)
		case OpCase:
			if last != "" {
				add(into, last, in.Const)
			}
		}
	}
}

func add(m map[string]map[int]bool, k string, c int) {
	if m[k] == nil {
		m[k] = map[int]bool{}
	}
	m[k][c] = true
}

// Domain builds the value domain of a var from the constants of both programs:
// every constant, its two neighbours, and 0 — enough to separate all six
// relations at every constant.
func Domain(consts map[int]bool) []int {
	set := map[int]bool{0: true}
	for c := range consts {
		set[c-1], set[c], set[c+1] = true, true, true
	}
	out := make([]int, 0, len(set))
	for v := range set {
		out = append(out, v)
	}
	sort.Ints(out)
	return out
}
