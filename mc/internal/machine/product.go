package machine

import (
	"fmt"
	"sort"
	"strings"
)

type Mode uint8

const (
	// Lazy: operand reads are silent; the environment's choice for every
	// operand read since the last command is shared by both sides; only
	// commands and the way of finishing are compared.
	Lazy Mode = iota
	// Lockstep: every operand read is itself an observable event.
	Lockstep
)

type TraceStep struct {
	Sigma string `json:"env"`
	Event string `json:"event"`
}

// Violation is a product state in which the two sides' next observable differ.
type Violation struct {
	A, B  Event
	Trace []TraceStep // observable prefix leading to the divergence, shortest first (BFS)
	Sigma string      // environment choices in the failing phase
}

func (v *Violation) String() string {
	var sb strings.Builder
	for _, t := range v.Trace {
		if t.Sigma != "" {
			fmt.Fprintf(&sb, "{%s} ", t.Sigma)
		}
		sb.WriteString(t.Event + " ; ")
	}
	fmt.Fprintf(&sb, "then under {%s}: A=%s B=%s", v.Sigma, v.A, v.B)
	return sb.String()
}

type Stats struct {
	States      int
	Transitions int
	Reads       int    // environment branch points met
	Events      int    // distinct observable events seen
	Finishes    int    // distinct ways of finishing seen
	MaxSigma    int    // widest environment of one phase
	Fingerprint uint64 // hash of the explored transition relation
}

type pstate struct{ a, b State }

type binding struct {
	k VarKey
	v int
}

type pnode struct {
	parent int
	sigma  []binding
	event  Event
}

type explorer struct {
	a, b    *Prog
	mode    Mode
	doms    map[string][]int
	visited map[pstate]int
	nodes   []pnode
	queue   []pstate
	stats   Stats
	viol    *Violation
	cur     int
	events  map[Event]bool
	fp      uint64
}

func (x *explorer) mix(v uint64) { x.fp = (x.fp ^ v) * 1099511628211 }

func (x *explorer) mixs(s string) {
	for i := 0; i < len(s); i++ {
		x.fp = (x.fp ^ uint64(s[i])) * 1099511628211
	}
	x.fp = (x.fp ^ 0xff) * 1099511628211
}

var boolDom = []int{0, 1}

func (x *explorer) domain(k VarKey) []int {
	if k.Kind != KVar {
		return boolDom
	}
	if d, ok := x.doms[k.Name]; ok {
		return d
	}
	return []int{0, 1}
}

func sigmaString(s []binding) string {
	if len(s) == 0 {
		return ""
	}
	parts := make([]string, len(s))
	for i, b := range s {
		parts[i] = fmt.Sprintf("%s=%d", b.k, b.v)
	}
	return strings.Join(parts, ",")
}

func lookup(s []binding, k VarKey) (int, bool) {
	for _, b := range s {
		if b.k == k {
			return b.v, true
		}
	}
	return 0, false
}

func seen(l []State, s State) bool {
	for _, t := range l {
		if t == s {
			return true
		}
	}
	return false
}

// Explore runs the explicit-state product search of a and b from their entry
// labels. It returns the first (shortest) violation, if any.
func Explore(a, b *Prog, entryA, entryB string, mode Mode) (Stats, *Violation) {
	x := &explorer{a: a, b: b, mode: mode, visited: map[pstate]int{}, events: map[Event]bool{}}
	consts := map[string]map[int]bool{}
	a.Consts(consts)
	b.Consts(consts)
	x.doms = map[string][]int{}
	for k, c := range consts {
		x.doms[k] = Domain(c)
	}
	x.fp = 14695981039346656037
	sa, okA := a.Entry(entryA)
	sb, okB := b.Entry(entryB)
	if !okA || !okB {
		return x.stats, &Violation{A: Event{EvBad, fmt.Sprintf("entry %s defined=%v", entryA, okA)}, B: Event{EvBad, fmt.Sprintf("entry %s defined=%v", entryB, okB)}}
	}
	x.push(pstate{sa, sb}, -1, nil, Event{})
	for len(x.queue) > 0 && x.viol == nil {
		ps := x.queue[0]
		x.queue = x.queue[1:]
		x.cur = x.visited[ps]
		if mode == Lazy {
			x.settle(ps.a, nil, ps.b, nil, nil, nil, nil)
		} else {
			x.lock(ps)
		}
	}
	x.stats.States = len(x.nodes)
	x.stats.Events = len(x.events)
	x.stats.Fingerprint = x.fp
	return x.stats, x.viol
}

func (x *explorer) push(ps pstate, parent int, sigma []binding, event Event) int {
	if id, ok := x.visited[ps]; ok {
		return id
	}
	id := len(x.nodes)
	x.visited[ps] = id
	x.nodes = append(x.nodes, pnode{parent, sigma, event})
	x.queue = append(x.queue, ps)
	return id
}

func (x *explorer) fail(ea, eb Event, sigma string) {
	if x.viol != nil {
		return
	}
	v := &Violation{A: ea, B: eb, Sigma: sigma}
	for n := x.cur; n > 0; n = x.nodes[n].parent {
		v.Trace = append([]TraceStep{{sigmaString(x.nodes[n].sigma), x.nodes[n].event.String()}}, v.Trace...)
	}
	x.viol = v
}

func (x *explorer) record(sigma []binding, ev Event, to int) {
	x.stats.Transitions++
	if !x.events[ev] {
		x.events[ev] = true
		if ev.Kind != EvCmd && ev.Kind != EvRead {
			x.stats.Finishes++
		}
	}
	x.mix(uint64(x.cur))
	for _, b := range sigma {
		x.mix(uint64(b.k.Kind))
		x.mixs(b.k.Name)
		x.mix(uint64(b.v))
	}
	x.mix(uint64(ev.Kind))
	x.mixs(ev.Text)
	x.mix(uint64(to + 1))
}

// settle is one silent phase of the lazy product: both sides run until their
// next observable under a shared, lazily extended environment.
func (x *explorer) settle(sa State, ea *Event, sb State, eb *Event, sigma []binding, seenA, seenB []State) {
	if x.viol != nil {
		return
	}
	for side := 0; side < 2; side++ {
		p, st, ev, sn := x.a, &sa, &ea, &seenA
		if side == 1 {
			p, st, ev, sn = x.b, &sb, &eb, &seenB
		}
		for *ev == nil {
			step := p.Next(*st)
			if !step.Read {
				e := step.Ev
				*ev, *st = &e, step.St
				break
			}
			if seen(*sn, step.St) {
				// Same read point, same registers, same (fixed) environment:
				// the side loops forever without an observable.
				*ev, *st = &Event{Kind: EvDiverge}, step.St
				break
			}
			*sn = append((*sn)[:len(*sn):len(*sn)], step.St)
			if v, ok := lookup(sigma, step.Var); ok {
				ns, e := p.Apply(step.St, v)
				*st = ns
				if e != nil {
					*ev = e
				}
				continue
			}
			x.stats.Reads++
			for _, v := range x.domain(step.Var) {
				ns := append(sigma[:len(sigma):len(sigma)], binding{step.Var, v})
				if len(ns) > x.stats.MaxSigma {
					x.stats.MaxSigma = len(ns)
				}
				// Restart this side at the read with the extended environment.
				if side == 0 {
					x.settle(step.St, nil, sb, eb, ns, (*sn)[:len(*sn)-1], seenB)
				} else {
					x.settle(sa, ea, step.St, nil, ns, seenA, (*sn)[:len(*sn)-1])
				}
			}
			return
		}
	}
	if *ea != *eb {
		x.fail(*ea, *eb, sigmaString(sigma))
		return
	}
	if ea.Kind == EvCmd {
		id := x.push(pstate{sa, sb}, x.cur, sigma, *ea)
		x.record(sigma, *ea, id)
		return
	}
	if ea.Kind == EvRunOff || ea.Kind == EvBad {
		// Both sides agree on a run-off / misuse: still a violation of closure.
		x.fail(*ea, *eb, sigmaString(sigma))
		return
	}
	x.record(sigma, *ea, -1)
}

// lock is one step of the lockstep product: reads are observable events.
func (x *explorer) lock(ps pstate) {
	sa := x.a.Next(ps.a)
	sb := x.b.Next(ps.b)
	switch {
	case sa.Read && sb.Read:
		ea, eb := Event{EvRead, sa.Desc}, Event{EvRead, sb.Desc}
		if ea != eb {
			x.fail(ea, eb, "")
			return
		}
		x.stats.Reads++
		for _, v := range x.domain(sa.Var) {
			na, e1 := x.a.Apply(sa.St, v)
			nb, e2 := x.b.Apply(sb.St, v)
			sg := []binding{{sa.Var, v}}
			if e1 != nil || e2 != nil {
				// A taken jump left the file or fell out of the block.
				var xa, xb Event
				if e1 != nil {
					xa = *e1
				} else {
					xa = Event{EvRead, "continues"}
				}
				if e2 != nil {
					xb = *e2
				} else {
					xb = Event{EvRead, "continues"}
				}
				if xa != xb || xa.Kind != EvOut {
					x.fail(xa, xb, sigmaString(sg))
					return
				}
				x.record(sg, xa, -1)
				continue
			}
			id := x.push(pstate{na, nb}, x.cur, sg, ea)
			x.record(sg, ea, id)
		}
	case sa.Read != sb.Read:
		ea, eb := sa.Ev, sb.Ev
		if sa.Read {
			ea = Event{EvRead, sa.Desc}
		}
		if sb.Read {
			eb = Event{EvRead, sb.Desc}
		}
		x.fail(ea, eb, "")
	default:
		if sa.Ev != sb.Ev || sa.Ev.Kind == EvRunOff || sa.Ev.Kind == EvBad {
			x.fail(sa.Ev, sb.Ev, "")
			return
		}
		if sa.Ev.Kind == EvCmd {
			id := x.push(pstate{sa.St, sb.St}, x.cur, nil, sa.Ev)
			x.record(nil, sa.Ev, id)
			return
		}
		x.record(nil, sa.Ev, -1)
	}
}

// SortedLabels is a helper for diagnostics.
func (p *Prog) SortedLabels() []string {
	out := make([]string, 0, len(p.Labels))
	for l := range p.Labels {
		out = append(out, l)
	}
	sort.Strings(out)
	return out
}
