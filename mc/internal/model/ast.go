// Package model holds the generator-side model of Poryscript programs (E1),
// its printer (E2) and the reference lowering to the abstract machine (E4).
// Nothing here shares code with the repository under test.
package model

import (
	"fmt"
	"strings"

	"pmc/internal/machine"
)

type SKind uint8

const (
	SCmd SKind = iota
	SEnd
	SReturn
	SLabel
	SGoto
	SIf
	SWhile
	SWhileInf
	SDoWhile
	SBreak
	SContinue
	SSwitch
	SGotoIf // a hand-written conditional jump command: goto_if_set(F, L) / goto_if_unset(F, L)
)

type Stmt struct {
	Kind    SKind
	Name    string // SCmd: source text of the command (e.g. "c1", "foo(1, X)"); SLabel/SGoto: label
	Out     string // SCmd: expected emitted line (without the tab); "" means Name
	Global  bool   // SLabel: written as L(global):
	Flag    string // SGotoIf: the flag tested
	WantSet bool   // SGotoIf: goto_if_set (true) / goto_if_unset (false)
	Arms    []Arm  // SIf: if + elif arms
	HasElse bool
	Else    []Stmt
	Cond    *Cond  // SWhile, SDoWhile
	Body    []Stmt // loops
	Operand *Leaf  // SSwitch: var(V) or an AutoVar call
	Cases   []Case // SSwitch
	Line    int    // set by the printer: 1-based source line of the statement's first token
}

type Arm struct {
	Cond *Cond
	Body []Stmt
}

type Case struct {
	Default bool
	Val     int
	Src     string // optional source spelling of the value (a constant expression that evaluates to Val)
	Body    []Stmt
	Line    int
}

type CKind uint8

const (
	CLeaf CKind = iota
	CNot
	CAnd
	COr
	CParen // redundant parentheses
)

type Cond struct {
	Kind CKind
	L, R *Cond
	Leaf *Leaf
}

// Leaf is one operand test. Src is its source text; the remaining fields are
// its meaning according to the manual.
type Leaf struct {
	Kind    machine.VarKind
	Name    string
	Src     string
	WantSet bool        // flag / trainer: true iff the leaf holds when the flag is set
	Rel     machine.Rel // var
	Const   int         // var
	Strict  bool        // var: written with value(N)
	AutoSrc string      // AutoVar: source text of the command call, e.g. "getsize(1, A)"
	AutoOut string      // AutoVar: expected emitted command line
}

// Script is one script statement.
type Script struct {
	Name string
	Body []Stmt
}

// ---------------------------------------------------------------------------
// Printer.

type printer struct {
	sb   strings.Builder
	line int
}

func (p *printer) ln(indent int, s string) int {
	p.line++
	p.sb.WriteString(strings.Repeat("\t", indent))
	p.sb.WriteString(s)
	p.sb.WriteByte('\n')
	return p.line
}

// CondString prints a condition with exactly the parentheses of the model
// tree: And/Or children that bind looser than their parent get the required
// parentheses; CParen nodes print redundant ones.
func CondString(c *Cond) string { return condStr(c, 0) }

// prec: 0 = top / inside parens, 1 = operand of ||, 2 = operand of &&, 3 = operand of !
func condStr(c *Cond, prec int) string {
	switch c.Kind {
	case CLeaf:
		return c.Leaf.Src
	case CParen:
		return "(" + condStr(c.L, 0) + ")"
	case CNot:
		// '!' in front of a parenthesised expression. (A negated bare operand
		// such as !flag(F) is a leaf form of its own.)
		if c.L.Kind == CParen {
			return "!" + condStr(c.L, 3)
		}
		return "!(" + condStr(c.L, 0) + ")"
	case CAnd:
		s := condStr(c.L, 2) + " && " + condStr(c.R, 3) // right operand of && must be atomic (left-assoc)
		if prec > 2 {
			return "(" + s + ")"
		}
		return s
	default: // COr
		s := condStr(c.L, 1) + " || " + condStr(c.R, 2) // right operand of || binds tighter (left-assoc)
		if prec > 0 {
			return "(" + s + ")"
		}
		return s
	}
}

func (p *printer) block(stmts []Stmt, indent int) {
	for i := range stmts {
		p.stmt(&stmts[i], indent)
	}
}

func (p *printer) stmt(s *Stmt, indent int) {
	switch s.Kind {
	case SCmd:
		s.Line = p.ln(indent, s.Name)
	case SEnd:
		s.Line = p.ln(indent, "end")
	case SReturn:
		s.Line = p.ln(indent, "return")
	case SLabel:
		if s.Global {
			s.Line = p.ln(indent, s.Name+"(global):")
		} else {
			s.Line = p.ln(indent, s.Name+":")
		}
	case SGoto:
		s.Line = p.ln(indent, "goto("+s.Name+")")
	case SGotoIf:
		if s.WantSet {
			s.Line = p.ln(indent, "goto_if_set("+s.Flag+", "+s.Name+")")
		} else {
			s.Line = p.ln(indent, "goto_if_unset("+s.Flag+", "+s.Name+")")
		}
	case SBreak:
		s.Line = p.ln(indent, "break")
	case SContinue:
		s.Line = p.ln(indent, "continue")
	case SIf:
		for i := range s.Arms {
			kw := "if"
			if i > 0 {
				kw = "} elif"
			}
			l := p.ln(indent, kw+" ("+CondString(s.Arms[i].Cond)+") {")
			if i == 0 {
				s.Line = l
			}
			p.block(s.Arms[i].Body, indent+1)
		}
		if s.HasElse {
			p.ln(indent, "} else {")
			p.block(s.Else, indent+1)
		}
		p.ln(indent, "}")
	case SWhile:
		s.Line = p.ln(indent, "while ("+CondString(s.Cond)+") {")
		p.block(s.Body, indent+1)
		p.ln(indent, "}")
	case SWhileInf:
		s.Line = p.ln(indent, "while {")
		p.block(s.Body, indent+1)
		p.ln(indent, "}")
	case SDoWhile:
		s.Line = p.ln(indent, "do {")
		p.block(s.Body, indent+1)
		p.ln(indent, "} while ("+CondString(s.Cond)+")")
	case SSwitch:
		op := s.Operand.Src
		s.Line = p.ln(indent, "switch ("+op+") {")
		for i := range s.Cases {
			c := &s.Cases[i]
			if c.Default {
				c.Line = p.ln(indent+1, "default:")
			} else {
				if c.Src != "" {
					c.Line = p.ln(indent+1, "case "+c.Src+":")
				} else {
					c.Line = p.ln(indent+1, fmt.Sprintf("case %d:", c.Val))
				}
			}
			p.block(c.Body, indent+2)
		}
		p.ln(indent, "}")
	}
}

// Print renders scripts one statement per line and records statement lines.
func Print(scripts []*Script) string {
	p := &printer{}
	for i, sc := range scripts {
		if i > 0 {
			p.ln(0, "")
		}
		p.ln(0, "script "+sc.Name+" {")
		p.block(sc.Body, 1)
		p.ln(0, "}")
	}
	return p.sb.String()
}

// PrintBody renders a statement list at the given indentation (used to place
// generated statements inside hand-written wrappers such as poryswitch cases).
func PrintBody(stmts []Stmt, indent int) string {
	p := &printer{}
	p.block(stmts, indent)
	return p.sb.String()
}

// Walk calls f on every statement in preorder.
func Walk(stmts []Stmt, f func(*Stmt)) {
	for i := range stmts {
		s := &stmts[i]
		f(s)
		for j := range s.Arms {
			Walk(s.Arms[j].Body, f)
		}
		Walk(s.Else, f)
		Walk(s.Body, f)
		for j := range s.Cases {
			Walk(s.Cases[j].Body, f)
		}
	}
}

// WalkConds calls f on every condition tree root and switch operand in source order.
func WalkLeaves(stmts []Stmt, f func(*Leaf)) {
	var wc func(c *Cond)
	wc = func(c *Cond) {
		if c == nil {
			return
		}
		if c.Kind == CLeaf {
			f(c.Leaf)
			return
		}
		wc(c.L)
		wc(c.R)
	}
	for i := range stmts {
		s := &stmts[i]
		switch s.Kind {
		case SIf:
			for j := range s.Arms {
				wc(s.Arms[j].Cond)
				WalkLeaves(s.Arms[j].Body, f)
			}
			WalkLeaves(s.Else, f)
		case SWhile:
			wc(s.Cond)
			WalkLeaves(s.Body, f)
		case SDoWhile:
			WalkLeaves(s.Body, f)
			wc(s.Cond)
		case SWhileInf:
			WalkLeaves(s.Body, f)
		case SSwitch:
			f(s.Operand)
			for j := range s.Cases {
				WalkLeaves(s.Cases[j].Body, f)
			}
		}
	}
}

// UserLabels returns the labels written inside the scripts.
func UserLabels(scripts []*Script) map[string]bool {
	m := map[string]bool{}
	for _, sc := range scripts {
		Walk(sc.Body, func(s *Stmt) {
			if s.Kind == SLabel {
				m[s.Name] = true
			}
		})
	}
	return m
}
