package model

import (
	"fmt"

	"pmc/internal/machine"
)

// CondShapes returns every And/Or tree with k leaves (Catalan(k-1) * 2^(k-1)).
// Leaves are placeholders (Leaf == nil).
func CondShapes(k int) []*Cond {
	if k == 1 {
		return []*Cond{{Kind: CLeaf}}
	}
	var out []*Cond
	for a := 1; a < k; a++ {
		for _, l := range CondShapes(a) {
			for _, r := range CondShapes(k - a) {
				out = append(out, &Cond{Kind: CAnd, L: l, R: r}, &Cond{Kind: COr, L: l, R: r})
			}
		}
	}
	return out
}

// CountNodes returns the number of nodes (leaves and operators) of a tree.
func CountNodes(c *Cond) int {
	if c.Kind == CLeaf {
		return 1
	}
	return 1 + CountNodes(c.L) + CountNodes(c.R)
}

// Decorate copies the undecorated tree c, wrapping the i-th node (preorder)
// in redundant parentheses (deco[i]==1) or a negation (deco[i]==2), and
// assigns leaves through leaf(i) for the i-th leaf (left to right).
func Decorate(c *Cond, deco []uint8, leaf func(i int) *Leaf) *Cond {
	node, lf := 0, 0
	var rec func(c *Cond) *Cond
	rec = func(c *Cond) *Cond {
		d := deco[node]
		node++
		var n *Cond
		if c.Kind == CLeaf {
			n = &Cond{Kind: CLeaf, Leaf: leaf(lf)}
			lf++
		} else {
			n = &Cond{Kind: c.Kind}
			n.L = rec(c.L)
			n.R = rec(c.R)
		}
		switch d {
		case 1:
			return &Cond{Kind: CParen, L: n}
		case 2:
			return &Cond{Kind: CNot, L: n}
		}
		return n
	}
	return rec(c)
}

// ForEachDeco enumerates every decoration vector over m nodes with at most
// maxDeco decorated nodes.
func ForEachDeco(m, maxDeco int, f func(deco []uint8)) {
	deco := make([]uint8, m)
	var rec func(start, left int)
	rec = func(start, left int) {
		f(deco)
		if left == 0 {
			return
		}
		for i := start; i < m; i++ {
			for d := uint8(1); d <= 2; d++ {
				deco[i] = d
				rec(i+1, left-1)
			}
			deco[i] = 0
		}
	}
	rec(0, maxDeco)
}

// NumLeafForms is the number of operand-test forms of the manual.
const NumLeafForms = 34

// LeafForm builds form f (0..NumLeafForms-1) on operand number k.
func LeafForm(f, k int) *Leaf {
	flagLike := func(kind machine.VarKind, fn, name string, f int) *Leaf {
		op := fn + "(" + name + ")"
		switch f {
		case 0:
			return &Leaf{Kind: kind, Name: name, Src: op, WantSet: true}
		case 1:
			return &Leaf{Kind: kind, Name: name, Src: "!" + op, WantSet: false}
		case 2:
			return &Leaf{Kind: kind, Name: name, Src: op + " == TRUE", WantSet: true}
		case 3:
			return &Leaf{Kind: kind, Name: name, Src: op + " == true", WantSet: true}
		case 4:
			return &Leaf{Kind: kind, Name: name, Src: op + " == FALSE", WantSet: false}
		case 5:
			return &Leaf{Kind: kind, Name: name, Src: op + " == false", WantSet: false}
		case 6:
			return &Leaf{Kind: kind, Name: name, Src: op + " != TRUE", WantSet: false}
		default:
			return &Leaf{Kind: kind, Name: name, Src: op + " != FALSE", WantSet: true}
		}
	}
	switch {
	case f < 8:
		return flagLike(machine.KFlag, "flag", fmt.Sprintf("F%d", k)+OperandSuffix(k), f)
	case f < 16:
		return flagLike(machine.KTrainer, "defeated", fmt.Sprintf("T%d", k)+OperandSuffix(k), f-8)
	}
	name := fmt.Sprintf("V%d", k) + OperandSuffix(k)
	op := "var(" + name + ")"
	if f >= 30 {
		// a var compared with the boolean constants: TRUE is 1, FALSE is 0, and the written operator is the one used
		switch f {
		case 30:
			return &Leaf{Kind: machine.KVar, Name: name, Src: op + " == TRUE", Rel: machine.RelEQ, Const: 1}
		case 31:
			return &Leaf{Kind: machine.KVar, Name: name, Src: op + " != TRUE", Rel: machine.RelNE, Const: 1}
		case 32:
			return &Leaf{Kind: machine.KVar, Name: name, Src: op + " == FALSE", Rel: machine.RelEQ, Const: 0}
		default:
			return &Leaf{Kind: machine.KVar, Name: name, Src: op + " != FALSE", Rel: machine.RelNE, Const: 0}
		}
	}
	f -= 16
	switch f {
	case 0:
		return &Leaf{Kind: machine.KVar, Name: name, Src: op, Rel: machine.RelNE, Const: 0}
	case 1:
		return &Leaf{Kind: machine.KVar, Name: name, Src: "!" + op, Rel: machine.RelEQ, Const: 0}
	}
	f -= 2
	rels := []machine.Rel{machine.RelEQ, machine.RelNE, machine.RelLT, machine.RelLE, machine.RelGT, machine.RelGE}
	syms := []string{"==", "!=", "<", "<=", ">", ">="}
	r := f % 6
	c := 2 + k%3
	if f < 6 {
		return &Leaf{Kind: machine.KVar, Name: name, Src: fmt.Sprintf("%s %s %d", op, syms[r], c), Rel: rels[r], Const: c}
	}
	return &Leaf{Kind: machine.KVar, Name: name, Src: fmt.Sprintf("%s %s value(%d)", op, syms[r], c), Rel: rels[r], Const: c, Strict: true}
}

// OperandSuffix varies the spelling of operand number k: operands are passed to the assembler verbatim, so an
// operand may be an expression. Every fourth operand carries a '+' expression and every fourth one a '%'
// (the assembler's modulo, and the printf verb character).
func OperandSuffix(k int) string {
	switch k % 4 {
	case 2:
		return " + 1"
	case 3:
		return " % 8"
	}
	return ""
}
