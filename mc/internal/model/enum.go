package model

import (
	"fmt"

	"pmc/internal/machine"
)

// Size-indexed, deterministic, total enumeration of script bodies (E1) by
// counting + unranking: Count(n) programs shapes have exactly n nodes and
// Unrank(n, i) builds the i-th one directly, so a shard is an index interval
// and a failing program is named by (family, n, index, goto assignment).

type Shape uint8

const (
	ShIf Shape = iota
	ShIfElse
	ShIfElif
	ShIfElifElse
	ShWhile
	ShWhileInf
	ShDoWhile
	ShSwitchA // switch (var(V)) { case 1: B }
	ShSwitchB // switch (var(V)) { case 1: B1 default: B2 }
	ShSwitchC // switch (var(V)) { default: B1 case 1: B2 }
	ShSwitchD // switch (var(V)) { case 1: case 2: B1 case 3: B2 }
)

type ctx struct {
	loop   bool // a loop encloses the block: continue is legal
	brk    bool // a loop or switch encloses the block: break is legal
	contOK bool // the block is closed by '}' (continue may be its last statement)
}

type blockSpec struct {
	loop   int8 // -1 inherit, 1 set
	brk    int8
	contOK bool
}

type shapeInfo struct {
	cost   int
	blocks []blockSpec
}

var shapes = map[Shape]shapeInfo{
	ShIf:         {1, []blockSpec{{-1, -1, true}}},
	ShIfElse:     {2, []blockSpec{{-1, -1, true}, {-1, -1, true}}},
	ShIfElif:     {2, []blockSpec{{-1, -1, true}, {-1, -1, true}}},
	ShIfElifElse: {3, []blockSpec{{-1, -1, true}, {-1, -1, true}, {-1, -1, true}}},
	ShWhile:      {1, []blockSpec{{1, 1, true}}},
	ShWhileInf:   {1, []blockSpec{{1, 1, true}}},
	ShDoWhile:    {1, []blockSpec{{1, 1, true}}},
	ShSwitchA:    {2, []blockSpec{{-1, 1, true}}},
	ShSwitchB:    {3, []blockSpec{{-1, 1, false}, {-1, 1, true}}},
	ShSwitchC:    {3, []blockSpec{{-1, 1, false}, {-1, 1, true}}},
	ShSwitchD:    {4, []blockSpec{{-1, 1, false}, {-1, 1, true}}},
}

func (b blockSpec) apply(c ctx) ctx {
	out := ctx{loop: c.loop, brk: c.brk, contOK: b.contOK}
	if b.loop == 1 {
		out.loop = true
	}
	if b.brk == 1 {
		out.brk = true
	}
	return out
}

// Family is a sub-grammar of script bodies.
type Family struct {
	Name      string
	Leaves    []SKind
	Shapes    []Shape
	NoAdjCmd  bool // no two adjacent plain commands (a run of commands is one straight-line stretch)
	LeafStyle int  // 0: flag(Fk); 1: rotate flag / var / defeated forms
	memo      map[memoKey]uint64
}

type memoKey struct {
	n       int
	c       ctx
	prevCmd bool
}

func (f *Family) has(k SKind) bool {
	for _, l := range f.Leaves {
		if l == k {
			return true
		}
	}
	return false
}

// leafOK reports whether leaf statement k may appear here.
func (f *Family) leafOK(k SKind, c ctx, prevCmd, last bool) bool {
	switch k {
	case SCmd:
		return !(f.NoAdjCmd && prevCmd)
	case SBreak:
		return c.brk
	case SContinue:
		return c.loop && c.contOK && last
	}
	return true
}

func (f *Family) countBlock(n int, c ctx, prevCmd bool) uint64 {
	if n == 0 {
		return 1
	}
	if f.memo == nil {
		f.memo = map[memoKey]uint64{}
	}
	k := memoKey{n, c, prevCmd}
	if v, ok := f.memo[k]; ok {
		return v
	}
	var total uint64
	for s := 1; s <= n; s++ {
		if s == 1 {
			for _, lk := range f.Leaves {
				if f.leafOK(lk, c, prevCmd, n-s == 0) {
					total += f.countBlock(n-s, c, lk == SCmd)
				}
			}
		}
		for _, sh := range f.Shapes {
			info := shapes[sh]
			if s < info.cost {
				continue
			}
			cs := f.countSubs(info.blocks, s-info.cost, c)
			if cs > 0 {
				total += cs * f.countBlock(n-s, c, false)
			}
		}
	}
	f.memo[k] = total
	return total
}

func (f *Family) countSubs(specs []blockSpec, total int, c ctx) uint64 {
	if len(specs) == 0 {
		if total == 0 {
			return 1
		}
		return 0
	}
	var sum uint64
	for a := 0; a <= total; a++ {
		c1 := f.countBlock(a, specs[0].apply(c), false)
		if c1 == 0 {
			continue
		}
		sum += c1 * f.countSubs(specs[1:], total-a, c)
	}
	return sum
}

func (f *Family) unrankSubs(specs []blockSpec, total int, c ctx, idx uint64) [][]Stmt {
	if len(specs) == 0 {
		return nil
	}
	for a := 0; a <= total; a++ {
		c1 := f.countBlock(a, specs[0].apply(c), false)
		cr := f.countSubs(specs[1:], total-a, c)
		if idx < c1*cr {
			first := f.unrankBlock(a, specs[0].apply(c), false, idx/cr)
			return append([][]Stmt{first}, f.unrankSubs(specs[1:], total-a, c, idx%cr)...)
		}
		idx -= c1 * cr
	}
	panic("unrankSubs: index out of range")
}

func (f *Family) unrankBlock(n int, c ctx, prevCmd bool, idx uint64) []Stmt {
	if n == 0 {
		return nil
	}
	for s := 1; s <= n; s++ {
		if s == 1 {
			for _, lk := range f.Leaves {
				if !f.leafOK(lk, c, prevCmd, n-s == 0) {
					continue
				}
				cr := f.countBlock(n-s, c, lk == SCmd)
				if idx < cr {
					return append([]Stmt{{Kind: lk}}, f.unrankBlock(n-s, c, lk == SCmd, idx)...)
				}
				idx -= cr
			}
		}
		for _, sh := range f.Shapes {
			info := shapes[sh]
			if s < info.cost {
				continue
			}
			cs := f.countSubs(info.blocks, s-info.cost, c)
			if cs == 0 {
				continue
			}
			cr := f.countBlock(n-s, c, false)
			if idx < cs*cr {
				subs := f.unrankSubs(info.blocks, s-info.cost, c, idx/cr)
				st := buildShape(sh, subs)
				return append([]Stmt{st}, f.unrankBlock(n-s, c, false, idx%cr)...)
			}
			idx -= cs * cr
		}
	}
	panic("unrankBlock: index out of range")
}

func buildShape(sh Shape, subs [][]Stmt) Stmt {
	switch sh {
	case ShIf:
		return Stmt{Kind: SIf, Arms: []Arm{{Body: subs[0]}}}
	case ShIfElse:
		return Stmt{Kind: SIf, Arms: []Arm{{Body: subs[0]}}, HasElse: true, Else: subs[1]}
	case ShIfElif:
		return Stmt{Kind: SIf, Arms: []Arm{{Body: subs[0]}, {Body: subs[1]}}}
	case ShIfElifElse:
		return Stmt{Kind: SIf, Arms: []Arm{{Body: subs[0]}, {Body: subs[1]}}, HasElse: true, Else: subs[2]}
	case ShWhile:
		return Stmt{Kind: SWhile, Body: subs[0]}
	case ShWhileInf:
		return Stmt{Kind: SWhileInf, Body: subs[0]}
	case ShDoWhile:
		return Stmt{Kind: SDoWhile, Body: subs[0]}
	case ShSwitchA:
		return Stmt{Kind: SSwitch, Cases: []Case{{Val: 1, Body: subs[0]}}}
	case ShSwitchB:
		return Stmt{Kind: SSwitch, Cases: []Case{{Val: 1, Body: subs[0]}, {Default: true, Body: subs[1]}}}
	case ShSwitchC:
		return Stmt{Kind: SSwitch, Cases: []Case{{Default: true, Body: subs[0]}, {Val: 1, Body: subs[1]}}}
	case ShSwitchD:
		return Stmt{Kind: SSwitch, Cases: []Case{{Val: 1}, {Val: 2, Body: subs[0]}, {Val: 3, Body: subs[1]}}}
	}
	panic("buildShape")
}

// Count is the number of body shapes with exactly n nodes.
func (f *Family) Count(n int) uint64 { return f.countBlock(n, ctx{contOK: true}, false) }

// Unrank builds the i-th body shape with n nodes (names not yet assigned).
func (f *Family) Unrank(n int, i uint64) []Stmt {
	return f.unrankBlock(n, ctx{contOK: true}, false, i)
}

// MakeLeaf builds the k-th operand test in the given style.
func MakeLeaf(style, k int) *Leaf {
	form := 0
	if style == 1 {
		form = k % 6
	}
	sfx := ""
	if style == 1 {
		sfx = OperandSuffix(k)
	}
	switch form {
	case 1:
		n := fmt.Sprintf("V%d", k) + sfx
		return &Leaf{Kind: machine.KVar, Name: n, Src: "var(" + n + ") == 1", Rel: machine.RelEQ, Const: 1}
	case 2:
		n := fmt.Sprintf("T%d", k) + sfx
		return &Leaf{Kind: machine.KTrainer, Name: n, Src: "defeated(" + n + ")", WantSet: true}
	case 3:
		n := fmt.Sprintf("F%d", k) + sfx
		return &Leaf{Kind: machine.KFlag, Name: n, Src: "!flag(" + n + ")", WantSet: false}
	case 4:
		n := fmt.Sprintf("V%d", k) + sfx
		return &Leaf{Kind: machine.KVar, Name: n, Src: "var(" + n + ") < 2", Rel: machine.RelLT, Const: 2}
	case 5:
		n := fmt.Sprintf("T%d", k) + sfx
		return &Leaf{Kind: machine.KTrainer, Name: n, Src: "!defeated(" + n + ")", WantSet: false}
	}
	n := fmt.Sprintf("F%d", k) + sfx
	return &Leaf{Kind: machine.KFlag, Name: n, Src: "flag(" + n + ")", WantSet: true}
}

// Slots describes the names assigned to a shape.
type Slots struct {
	Labels []string
	Gotos  []*Stmt
}

// Name assigns distinct command names, operands and labels in preorder and
// returns the label names and goto statements (targets not yet chosen).
// Distinct operands make every path feasible; distinct commands make every
// trace identify the exact statements executed.
func (f *Family) Assign(body []Stmt, prefix string) Slots {
	var sl Slots
	nc, nl, nf, nv, nj := 0, 0, 0, 0, 0
	leaf := func() *Cond {
		nf++
		return &Cond{Kind: CLeaf, Leaf: MakeLeaf(f.LeafStyle, nf)}
	}
	Walk(body, func(s *Stmt) {
		switch s.Kind {
		case SCmd:
			nc++
			s.Name = fmt.Sprintf("%sc%d", prefix, nc)
		case SLabel:
			nl++
			s.Name = fmt.Sprintf("%sL%d", prefix, nl)
			sl.Labels = append(sl.Labels, s.Name)
		case SGoto:
			sl.Gotos = append(sl.Gotos, s)
		case SGotoIf:
			nj++
			s.Flag = fmt.Sprintf("%sJ%d", prefix, nj)
			s.WantSet = nj%2 == 1
			sl.Gotos = append(sl.Gotos, s)
		case SIf:
			for i := range s.Arms {
				s.Arms[i].Cond = leaf()
			}
		case SWhile, SDoWhile:
			s.Cond = leaf()
		case SSwitch:
			nv++
			n := fmt.Sprintf("%sW%d", prefix, nv)
			s.Operand = &Leaf{Kind: machine.KVar, Name: n, Src: "var(" + n + ")"}
		}
	})
	return sl
}

// ForEachGotoAssignment calls f for every assignment of the gotos to the
// defined labels plus one external name.
func ForEachGotoAssignment(sl Slots, ext string, f func(variant int)) {
	ForEachGotoAssignmentTo(sl, []string{ext}, f)
}

// ForEachGotoAssignmentTo is ForEachGotoAssignment with several extra targets
// (labels of other scripts, external names).
func ForEachGotoAssignmentTo(sl Slots, extra []string, f func(variant int)) {
	targets := append(append([]string{}, sl.Labels...), extra...)
	g := len(sl.Gotos)
	if g == 0 {
		f(0)
		return
	}
	idx := make([]int, g)
	variant := 0
	for {
		for i, gs := range sl.Gotos {
			gs.Name = targets[idx[i]]
		}
		f(variant)
		variant++
		i := 0
		for i < g {
			idx[i]++
			if idx[i] < len(targets) {
				break
			}
			idx[i] = 0
			i++
		}
		if i == g {
			return
		}
	}
}
