package model

import (
	"fmt"

	"pmc/internal/machine"
)

// Reference lowering (E4): a deliberately boring, textbook translation of the
// structured model program to the abstract machine. No chunking, no
// optimisation, no shared structure with the emitter under test.

type lowerer struct {
	p *machine.Prog
	n int
}

func (l *lowerer) fresh() string {
	l.n++
	return fmt.Sprintf("·R%d", l.n)
}

func (l *lowerer) label(name string) { l.p.AddLabel(name, false) }

func (l *lowerer) emit(in machine.Ins) { l.p.Add(in) }

// Lower translates the scripts of one file into a reference program. Every
// script name is an entry label.
func Lower(scripts []*Script) *machine.Prog {
	l := &lowerer{p: machine.NewProg()}
	for _, sc := range scripts {
		l.p.AddLabel(sc.Name, true)
		l.block(sc.Body, "", "")
		// Falling off the end of a script body returns.
		l.emit(machine.Ins{Op: machine.OpReturn})
	}
	l.p.Finish()
	return l.p
}

func (l *lowerer) block(stmts []Stmt, brk, cont string) {
	for i := range stmts {
		l.stmt(&stmts[i], brk, cont)
	}
}

func cmdOut(s *Stmt) string {
	if s.Out != "" {
		return s.Out
	}
	return s.Name
}

func (l *lowerer) stmt(s *Stmt, brk, cont string) {
	switch s.Kind {
	case SCmd:
		l.emit(machine.Ins{Op: machine.OpCmd, Text: cmdOut(s)})
	case SEnd:
		l.emit(machine.Ins{Op: machine.OpEnd})
	case SReturn:
		l.emit(machine.Ins{Op: machine.OpReturn})
	case SLabel:
		l.label(s.Name)
	case SGoto:
		l.emit(machine.Ins{Op: machine.OpGoto, Target: s.Name})
	case SGotoIf:
		// a conditional jump command: jump when the flag has the wanted state, else go on
		l.emit(machine.Ins{Op: machine.OpIfFlag, Name: s.Flag, Want: s.WantSet, Target: s.Name})
	case SBreak:
		l.emit(machine.Ins{Op: machine.OpGoto, Target: brk})
	case SContinue:
		l.emit(machine.Ins{Op: machine.OpGoto, Target: cont})
	case SIf:
		end := l.fresh()
		for i := range s.Arms {
			t, f := l.fresh(), l.fresh()
			l.cond(s.Arms[i].Cond, t, f)
			l.label(t)
			l.block(s.Arms[i].Body, brk, cont)
			l.emit(machine.Ins{Op: machine.OpGoto, Target: end})
			l.label(f)
		}
		if s.HasElse {
			l.block(s.Else, brk, cont)
		}
		l.label(end)
	case SWhile:
		h, b, x := l.fresh(), l.fresh(), l.fresh()
		l.label(h)
		l.cond(s.Cond, b, x)
		l.label(b)
		l.block(s.Body, x, h) // continue re-evaluates the condition: the start of a while loop
		l.emit(machine.Ins{Op: machine.OpGoto, Target: h})
		l.label(x)
	case SWhileInf:
		h, x := l.fresh(), l.fresh()
		l.label(h)
		l.block(s.Body, x, h)
		l.emit(machine.Ins{Op: machine.OpGoto, Target: h})
		l.label(x)
	case SDoWhile:
		b, x := l.fresh(), l.fresh()
		l.label(b)
		l.block(s.Body, x, b) // continue goes back to the start of the loop: the body
		l.cond(s.Cond, b, x)
		l.label(x)
	case SSwitch:
		x := l.fresh()
		if s.Operand.AutoSrc != "" {
			l.emit(machine.Ins{Op: machine.OpCmd, Text: s.Operand.AutoOut})
		}
		l.emit(machine.Ins{Op: machine.OpSwitch, Name: s.Operand.Name})
		// body label of entry i = label of the next entry (at or after i) that has a body; x if none.
		bodyLabel := make([]string, len(s.Cases))
		own := make([]string, len(s.Cases))
		next := x
		for i := len(s.Cases) - 1; i >= 0; i-- {
			if len(s.Cases[i].Body) > 0 {
				own[i] = l.fresh()
				next = own[i]
			}
			bodyLabel[i] = next
		}
		def := x
		for i := range s.Cases {
			if s.Cases[i].Default {
				def = bodyLabel[i]
			} else {
				l.emit(machine.Ins{Op: machine.OpCase, Const: s.Cases[i].Val, Target: bodyLabel[i]})
			}
		}
		l.emit(machine.Ins{Op: machine.OpGoto, Target: def})
		for i := range s.Cases {
			if own[i] == "" {
				continue
			}
			l.label(own[i])
			l.block(s.Cases[i].Body, x, cont) // break leaves the switch; continue still belongs to the loop
			l.emit(machine.Ins{Op: machine.OpGoto, Target: x})
		}
		l.label(x)
	}
}

// cond emits code that jumps to t when c holds and to f otherwise, evaluating
// left to right with short-circuit.
func (l *lowerer) cond(c *Cond, t, f string) {
	switch c.Kind {
	case CLeaf:
		lf := c.Leaf
		if lf.AutoSrc != "" {
			l.emit(machine.Ins{Op: machine.OpCmd, Text: lf.AutoOut})
		}
		switch lf.Kind {
		case machine.KFlag:
			l.emit(machine.Ins{Op: machine.OpIfFlag, Name: lf.Name, Want: lf.WantSet, Target: t})
		case machine.KTrainer:
			l.emit(machine.Ins{Op: machine.OpChk, Name: lf.Name})
			l.emit(machine.Ins{Op: machine.OpIfReg, Want: lf.WantSet, Target: t})
		default:
			l.emit(machine.Ins{Op: machine.OpCmp, Name: lf.Name, Const: lf.Const, Strict: lf.Strict})
			l.emit(machine.Ins{Op: machine.OpIfCmp, Rel: lf.Rel, Target: t})
		}
		l.emit(machine.Ins{Op: machine.OpGoto, Target: f})
	case CParen:
		l.cond(c.L, t, f)
	case CNot:
		l.cond(c.L, f, t)
	case CAnd:
		m := l.fresh()
		l.cond(c.L, m, f)
		l.label(m)
		l.cond(c.R, t, f)
	case COr:
		m := l.fresh()
		l.cond(c.L, t, m)
		l.label(m)
		l.cond(c.R, t, f)
	}
}
