#!/bin/sh
# usage: ./run.sh <ID> quick|thorough
# Rebuilds the harness against /repo's current working tree, then runs one check.
set -e
cd "$(dirname "$0")"
export GOFLAGS=-mod=mod GOPROXY=off GOSUMDB=off GOTOOLCHAIN=local
mkdir -p bin evidence
(cd mc && go build -o ../bin/pmc ./cmd/pmc) || { echo "HARNESS-ERROR: build failed"; exit 2; }
exec ./bin/pmc check "$1" "${2:-quick}"
