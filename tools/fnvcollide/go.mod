module fnvcollide

go 1.21
