// fnvcollide finds two different 16-character hex strings with the same 64-bit FNV digest (variant 1 or 1a) by
// parallel collision search with distinguished points (van Oorschot / Wiener). Usage: fnvcollide 1|1a
// The pairs it printed are recorded in mc/internal/dict/collisions.go.
package main

import (
	"fmt"
	"os"
	"sync"
)

const (
	offset = 14695981039346656037
	prime  = 1099511628211
	hexd   = "0123456789abcdef"
)

var variantA bool

func enc(x uint64, b *[16]byte) {
	for i := 15; i >= 0; i-- {
		b[i] = hexd[x&15]
		x >>= 4
	}
}

func f(x uint64) uint64 {
	var b [16]byte
	enc(x, &b)
	h := uint64(offset)
	for _, c := range b {
		if variantA {
			h ^= uint64(c)
			h *= prime
		} else {
			h *= prime
			h ^= uint64(c)
		}
	}
	return h
}

type trail struct {
	start uint64
	steps uint64
}

func main() {
	variantA = len(os.Args) > 1 && os.Args[1] == "1a"
	const mask = (1 << 22) - 1
	var mu sync.Mutex
	seen := map[uint64]trail{}
	found := make(chan [2]uint64, 1)
	for t := 0; t < 16; t++ {
		go func(seed uint64) {
			for {
				seed = seed*6364136223846793005 + 1442695040888963407
				x, n := seed, uint64(0)
				for x&mask != 0 && n < 1<<26 {
					x = f(x)
					n++
				}
				if x&mask != 0 {
					continue
				}
				mu.Lock()
				o, ok := seen[x]
				if !ok {
					seen[x] = trail{seed, n}
				}
				mu.Unlock()
				if !ok || o.start == seed {
					continue
				}
				// walk both trails to the merge point
				a, na, b, nb := seed, n, o.start, o.steps
				for na > nb {
					a = f(a)
					na--
				}
				for nb > na {
					b = f(b)
					nb--
				}
				if a == b {
					continue // one trail is a suffix of the other
				}
				for f(a) != f(b) {
					a, b = f(a), f(b)
				}
				select {
				case found <- [2]uint64{a, b}:
				default:
				}
				return
			}
		}(uint64(t)*0x9E3779B97F4A7C15 + 12345)
	}
	p := <-found
	var a, b [16]byte
	enc(p[0], &a)
	enc(p[1], &b)
	fmt.Printf("%s %s digest %016x %016x\n", a[:], b[:], f(p[0]), f(p[1]))
}
