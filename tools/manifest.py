#!/usr/bin/env python3
"""Regenerates /verif/MANIFEST.json from the table below (single source of truth)."""
import json, os
ROOT = os.path.dirname(os.path.dirname(os.path.abspath(__file__)))
MC = "model_checking"; EX = "exploration"
CHECKS = {
 "C01": (MC, "explicit-state product model checking (reference automaton x emitted automaton, all game states) over bounded-exhaustive program enumeration",
   "every script body of 4 exhaustively enumerated families up to a node bound is compiled with the real compiler; the emitted assembly is read as an automaton and explored in product with a reference automaton over all game states (visited set closes loops); any product state whose next observable differs is a violation",
   "trusted: abstract machine for the Gen-3 control macros, the reference lowering, the asm reader; bound: node count per family as reported in evidence"),
 "C02": (MC, "lockstep product model checking of every bounded boolean expression tree against the generator's own tree, all operand values",
   "every And/Or tree up to k leaves with redundant parentheses/negations on any node, every leaf form, in 7 condition positions; each operand read, its strictness, the order of reads and the branch taken are compared on every path of the product",
   "trusted: the generator's tree printer prints the usual precedence; abstract machine; bound: leaves and decorations as reported"),
 "C03": (MC, "explicit-state product model checking of every bounded case list x body assignment x context against the reference switch rule",
   "every case list up to n entries (default anywhere or absent), every assignment of 10 body kinds, 7 contexts; product exploration over every value of the switched var and all flags",
   "trusted: reference switch rule (DESIGN.md E4), abstract machine; bound: entries as reported"),
 "C04": (EX, "bounded-exhaustive program enumeration with a static closure analysis of every emitted file plus dynamic run-off exploration",
   "every output of the C01/C03 enumerations, a dead-code-label family and multi-statement files is checked for unique labels, resolved references, preserved user labels and absence of fall-through across block boundaries from any label",
   "static run-off clause treats every branch as feasible; generator keeps user names from imitating generated names"),
 "C05": (MC, "explicit-state product model checking asm(optimize) x asm(no-optimize) per enumerated program, plus static clauses on both texts",
   "for every enumerated program the optimized and unoptimized outputs are explored in product over all game states from the script entry, and both texts are checked for redundant gotos, unreferenced generated labels, identical visible labels and identical non-goto lines",
   "generated labels are recognised by the <script>_<n> naming scheme"),
 "C11": (MC, "lockstep product model checking of bounded expression trees with AutoVar leaves and AutoVar switch operands",
   "C02's enumeration with 1-2 leaves replaced by AutoVar calls of 6 config kinds; the preamble command, every operand read and every body command are observable events compared on every path",
   "expected preamble text follows the statement rendering rule that C10 checks separately"),
 "C06": (EX, "bounded-exhaustive enumeration of files with inline arguments against a generator-side naming/sharing model",
   "every file with up to N inline text / moves() arguments over 3 owners, 11 datum kinds and 8 contexts; argument labels, label contents, sharing, per-owner numbering and clash errors are compared with the generator's expectation",
   "naming rule <owner>_Text_<n> / <owner>_Movement_<n> in order of first appearance is the reference model"),
 "C07": (EX, "bounded-exhaustive enumeration of texts x fonts x every parameter value against an independent token-stream oracle",
   "every atom sequence up to length L (words, multi-byte, control codes, spacing, explicit breaks) x 2 synthetic fonts x every maxLineLength x numLines x cursorOverlap through the exported FormatText, plus a cross-product of format() spellings compiled end to end",
   "the oracle's reading of 'line shows the prompt' and 'does not fit' is stated in DESIGN.md C07"),
 "C08": (EX, "bounded-exhaustive enumeration of mapscripts statements with a differential oracle (inline body vs. the same body as a script statement)",
   "every mapscripts statement with up to N entries over plain / inline / table entries; header, tables and terminators are compared with the generator's expectation and every inline script with the standalone compilation of its body",
   "behaviour of script statements themselves is C01's business"),
 "C09": (EX, "bounded-exhaustive enumeration of string contents x part splits x types x origins",
   "every content up to length L over 11 characters split into 1-3 parts, 4 string types, 8 origins (text statement, inline, format(), poryswitch cases); directives, per-line payloads and the single terminator are compared with the generator's expectation",
   "format() origins use the exported FormatText for the line split (C07 checks its content)"),
 "C10": (EX, "bounded-exhaustive enumeration of argument token sequences against the generator's rendering",
   "every in-domain argument token sequence up to length L over a 22-token alphabet, 5 command names, 5 contexts; the whole emitted file is compared byte for byte",
   "domain: no empty arguments, inline data only as whole arguments"),
 "C12": (EX, "bounded-exhaustive metamorphic enumeration: poryswitch program vs. the program with the selected case written out",
   "every poryswitch with 1-3 case labels in every order, colon/brace forms, every content assignment incl. nested poryswitches, in 8 positions x 4 switch values; outputs compared byte for byte with generator-side selection",
   "selection rule (matching label, else '_') is the generator's"),
 "C13": (EX, "metamorphic enumeration over definition sets x use sites with line markers on",
   "8 definition sets x every single use site, every pair (thorough: triple) and all sites at once over 19 documented positions + 8 non-positions + use-before-definition + redefinition; outputs compared byte for byte incl. line markers",
   "values with parentheses / non-identifiers are only used where they can be written out literally"),
 "C14": (EX, "bounded-exhaustive enumeration of movement and mart lists against the generator's expansion",
   "every movement list up to L elements over 42 element kinds (steps x multipliers incl. boundary and invalid ones, poryswitch segments) in statement and moves() form, every mart list up to M items",
   "expected expansion is computed by the generator"),
 "C15": (EX, "exhaustive finite product of statement kinds x scope modifiers x generated label kinds",
   "3^5 modifier assignments x label modifier x order x optimize; every label definition of the output is classified by the naming scheme and checked against the documented scope",
   "naming scheme identifies generated labels"),
 "C16": (EX, "bounded-exhaustive layout enumeration over a construct corpus with a position-map oracle",
   "6 corpus programs covering every marker-emitting construct x every layout with up to k inserted line breaks / blank lines / comments; transparency, path, and marker line within the construct's source extent",
   "the extent reading of 'line on which the construct was written' is stated in DESIGN.md C16"),
 "C17": (MC, "deviation-bounded schedule exploration over instrumented map iterations + exhaustive bounded history enumeration + context enumeration",
   "every range-over-map of the repository is routed through a scheduler by an overlay generated at check time; all schedules with <= d deviating choice points, every history of <= k compilations vs. fresh-process baselines, every statement among <= m neighbours",
   "assumes map iteration order and process history are the compiler's only nondeterminism (no goroutines / clocks / randomness in the code)"),
 "C18": (EX, "bounded-exhaustive token-sequence, deviation and character-string enumeration in watchdog-supervised worker subprocesses",
   "every token sequence up to L after 29 context prefixes, every single deviation of 10 seed programs (thorough: pairs), every character string up to N over 23 characters, each under a covering set of configurations in normal and lint mode; panics, hangs, worker deaths, unlocated errors and lint/normal disagreement are violations",
   "covering set of configurations rather than the full matrix; hang = no progress for 10 s confirmed alone"),
 "C19": (EX, "bounded-exhaustive character-string and lexeme-sequence enumeration with generator-free position and gap-variation oracles",
   "every string up to N characters over 19 characters and every sequence up to M lexemes of a 65-lexeme alphabet: every token's reported position must locate its lexeme, and replacing any gap between tokens by any of 9 separators must keep the token sequence; corpus programs must compile to the same output",
   "lexeme of STRING / RAWSTRING found by a small independent scanner"),
 "C20": (EX, "exhaustive enumeration of nesting chains x injections with a line oracle",
   "every nesting chain up to depth d under 3 roots x 15 injections, plus name-clash programs derived from the compiler's own output; each ill-formed program must be rejected with the error on the offending line",
   "one statement per line identifies the construct"),
}
ENGINE_PROPS = sorted(CHECKS)
def main():
    checks = []
    for pid in sorted(CHECKS):
        level, technique, text, note = CHECKS[pid]
        checks.append({
            "property_id": pid,
            "quick_cmd": "./run.sh %s quick" % pid,
            "thorough_cmd": "./run.sh %s thorough" % pid,
            "evidence_file": "/verif/evidence/%s.json" % pid,
            "replay_cmd_template": "./bin/pmc replay {path}",
            "engine": "pmc",
            "level_claimed": {"category": level, "text": text, "design_ref": "DESIGN.md section 4, " + pid},
            "level_note": note,
            "technique": technique,
        })
    na = [{"property_id": "C%02d" % i, "reason": "check not built yet (work in progress; DESIGN.md section 9 gives the build order)"}
          for i in range(1, 21) if "C%02d" % i not in CHECKS]
    m = {
        "version": 1,
        "setup_cmd": "cd /verif/mc && GOFLAGS=-mod=mod GOPROXY=off GOSUMDB=off GOTOOLCHAIN=local go build -o ../bin/pmc ./cmd/pmc",
        "hooks": {"guard": "verifsched",
                  "enable": "no hook is committed to /repo (source_commits is empty): checks link the real packages through a go.mod replace (=> /repo); C17's map-iteration scheduler is generated from the current tree at check time by mc/internal/instr and compiled with `go build -tags verifsched -overlay <scratch>/overlay.json ./cmd/sched`; the tag guards only harness code",
                  "baseline_off_cmd": "cd /repo && GOFLAGS=-mod=mod GOPROXY=off go test -vet=off -count=1 ./...",
                  "source_commits": [], "add_only": True},
        "engines": [{"name": "pmc", "path": "/verif/mc", "serves_properties": ENGINE_PROPS,
                     "kind_free_text": "hand-written bounded-exhaustive explorer in Go (stdlib only): count/unrank program enumerators, abstract Gen-3 control machine, explicit-state product search, deviation-bounded enumerators"}],
        "checks": checks,
        "not_applicable": na,
        "notes": "run.sh rebuilds the harness against /repo's working tree on every invocation; known_findings.txt lists fixed defects (fixed: entries suppress nothing).",
    }
    json.dump(m, open(os.path.join(ROOT, "MANIFEST.json"), "w"), indent=1)
if __name__ == "__main__":
    main()
