#!/usr/bin/env python3
"""Regenerates /verif/MANIFEST.json from the table below (single source of truth)."""
import json, os
ROOT = os.path.dirname(os.path.dirname(os.path.abspath(__file__)))
MC = "model_checking"; EX = "exploration"
CHECKS = {
 "C01": (MC, "explicit-state product model checking (reference automaton x emitted automaton, all game states) over bounded-exhaustive program enumeration",
   "every script body of 4 exhaustively enumerated families up to a node bound is compiled with the real compiler; the emitted assembly is read as an automaton and explored in product with a reference automaton over all game states (visited set closes loops); any product state whose next observable differs is a violation",
   "trusted: abstract machine for the Gen-3 control macros, the reference lowering, the asm reader; bound: node count per family as reported in evidence"),
 "C02": (MC, "lockstep product model checking of every bounded boolean expression tree against the generator's own tree, all operand values",
   "every And/Or tree up to k leaves with redundant parentheses/negations on any node, every leaf form, in 7 condition positions; each operand read, its strictness, the order of reads and the branch taken are compared on every path of the product",
   "trusted: the generator's tree printer prints the usual precedence; abstract machine; bound: leaves and decorations as reported"),
 "C03": (MC, "explicit-state product model checking of every bounded case list x body assignment x context against the reference switch rule",
   "every case list up to n entries (default anywhere or absent), every assignment of 10 body kinds, 7 contexts; product exploration over every value of the switched var and all flags",
   "trusted: reference switch rule (DESIGN.md E4), abstract machine; bound: entries as reported"),
 "C04": (EX, "bounded-exhaustive program enumeration with a static closure analysis of every emitted file plus dynamic run-off exploration",
   "every output of the C01/C03 enumerations, a dead-code-label family and multi-statement files is checked for unique labels, resolved references, preserved user labels and absence of fall-through across block boundaries from any label",
   "static run-off clause treats every branch as feasible; generator keeps user names from imitating generated names"),
 "C05": (MC, "explicit-state product model checking asm(optimize) x asm(no-optimize) per enumerated program, plus static clauses on both texts",
   "for every enumerated program the optimized and unoptimized outputs are explored in product over all game states from the script entry, and both texts are checked for redundant gotos, unreferenced generated labels, identical visible labels and identical non-goto lines",
   "generated labels are recognised by the <script>_<n> naming scheme"),
 "C11": (MC, "lockstep product model checking of bounded expression trees with AutoVar leaves and AutoVar switch operands",
   "C02's enumeration with 1-2 leaves replaced by AutoVar calls of 6 config kinds; the preamble command, every operand read and every body command are observable events compared on every path",
   "expected preamble text follows the statement rendering rule that C10 checks separately"),
}
ENGINE_PROPS = sorted(CHECKS)
def main():
    checks = []
    for pid in sorted(CHECKS):
        level, technique, text, note = CHECKS[pid]
        checks.append({
            "property_id": pid,
            "quick_cmd": "./run.sh %s quick" % pid,
            "thorough_cmd": "./run.sh %s thorough" % pid,
            "evidence_file": "/verif/evidence/%s.json" % pid,
            "replay_cmd_template": "./bin/pmc replay {path}",
            "engine": "pmc",
            "level_claimed": {"category": level, "text": text, "design_ref": "DESIGN.md section 4, " + pid},
            "level_note": note,
            "technique": technique,
        })
    na = [{"property_id": "C%02d" % i, "reason": "check not built yet (work in progress; DESIGN.md section 9 gives the build order)"}
          for i in range(1, 21) if "C%02d" % i not in CHECKS]
    m = {
        "version": 1,
        "setup_cmd": "cd /verif/mc && GOFLAGS=-mod=mod GOPROXY=off GOSUMDB=off GOTOOLCHAIN=local go build -o ../bin/pmc ./cmd/pmc",
        "hooks": {"guard": "verif",
                  "enable": "no hooks are committed to /repo: checks link the real packages through a go.mod replace (=> /repo); C17's map-iteration scheduler is generated at check time into a go build -overlay",
                  "baseline_off_cmd": "cd /repo && GOFLAGS=-mod=mod GOPROXY=off go test -vet=off -count=1 ./...",
                  "source_commits": [], "add_only": True},
        "engines": [{"name": "pmc", "path": "/verif/mc", "serves_properties": ENGINE_PROPS,
                     "kind_free_text": "hand-written bounded-exhaustive explorer in Go (stdlib only): count/unrank program enumerators, abstract Gen-3 control machine, explicit-state product search, deviation-bounded enumerators"}],
        "checks": checks,
        "not_applicable": na,
        "notes": "run.sh rebuilds the harness against /repo's working tree on every invocation; known_findings.txt lists fixed defects (fixed: entries suppress nothing).",
    }
    json.dump(m, open(os.path.join(ROOT, "MANIFEST.json"), "w"), indent=1)
if __name__ == "__main__":
    main()
