#!/usr/bin/env python3
"""Regenerates /verif/MANIFEST.json from the table below (single source of truth)."""
import json, os
ROOT = os.path.dirname(os.path.dirname(os.path.abspath(__file__)))
MC = "model_checking"; EX = "exploration"
CHECKS = {
 "C01": (MC, "explicit-state product model checking (reference automaton x emitted automaton, all game states) over bounded-exhaustive program enumeration",
   "every script body of 4 exhaustively enumerated families up to a node bound, every sequence of statement templates, two-script files with crossing gotos, dead-label programs, poryswitch-wrapped sequences (selected directly, through a last and through a first '_' case), AutoVar-condition shapes, scaled programs (each construct repeated / nested K times for every K up to a bound) mixed nests (every ordered triple of block kinds around six cores) and huge scripts (a template repeated up to 22000 / 45000 times in one script) is compiled with the real compiler; the emitted assembly is read as an automaton and explored in product with a reference automaton over all game states (visited set closes loops); any product state whose next observable differs is a violation; the evidence file's rule string gives the exact bounds of the run",
   "trusted: abstract machine for the Gen-3 control macros, the reference lowering, the asm reader; bound: node count per family as reported in evidence"),
 "C02": (MC, "lockstep product model checking of every bounded boolean expression tree against the generator's own tree, all operand values",
   "every And/Or tree up to k leaves with redundant parentheses/negations on any node, every leaf form (operands spelled as names and as expressions with + and %), in 19 condition positions of scripts (four with a single call / goto / return / end as the body, two with nothing but another if as the body before an else) and in later inline scripts of mapscripts statements, shared-operand variants (different constants incl. 1 / 10 / 100, strictness-only), vars compared with TRUE / FALSE, AutoVar leaves, and chains of K leaves for every K up to a bound; each operand read, its strictness, the order of reads and the branch taken are compared on every path of the product",
   "trusted: the generator's tree printer prints the usual precedence; abstract machine; bound: leaves and decorations as reported"),
 "C03": (MC, "explicit-state product model checking of every bounded case list x body assignment x context against the reference switch rule",
   "every case list up to n entries (default anywhere or absent), every assignment of up to 15 body kinds (incl. a body that is only a break, a label, an if with an empty block or an if around one command), 10 contexts, each also on one source line with line markers, inside poryswitch cases with var and AutoVar operands, with every break / closing continue written as a poryswitch case, plus the dead-label programs, mixed nests and switches with K cases / nested K deep for every K up to a bound; product exploration over every value of the switched var and all flags",
   "trusted: reference switch rule (DESIGN.md E4), abstract machine; bound: entries as reported"),
 "C04": (EX, "bounded-exhaustive program enumeration with a static closure analysis of every emitted file plus dynamic run-off exploration",
   "every output of the C01/C03 enumerations, the dead-label family (label directly and in every block kind after every dead position, also named like a suffix of a sub-label), multi-statement files with two or three statements of every kind, the C06 / C08 file families, the mixed nests and huge scripts, C20's ill-formed programs wherever the compiler accepts one, and one mass file of >= 100,000 scripts is checked for unique labels, resolved references, preserved user labels, no empty arguments and absence of fall-through across block boundaries from any label",
   "static run-off clause treats every branch as feasible; generator keeps user names from imitating generated names"),
 "C05": (MC, "explicit-state product model checking asm(optimize) x asm(no-optimize) per enumerated program, plus static clauses on both texts",
   "for every enumerated program (C01/C03 families, sequences, scaled programs, mixed nests, huge scripts, shared-operand and decorated conditions in the layouts where the body follows its test, AutoVar shapes, data families with several inline scripts) the optimized and unoptimized outputs are explored in product over all game states from every script entry, and both texts are checked for redundant gotos, unreferenced generated labels, identical visible labels and identical non-goto lines; acceptance of label-clash programs must not depend on the optimizer setting",
   "generated labels are recognised by the <script>_<n> naming scheme"),
 "C11": (MC, "lockstep product model checking of bounded expression trees with AutoVar leaves and AutoVar switch operands",
   "C02's enumeration with 1-2 leaves replaced by AutoVar calls of 7 config kinds in 18 condition positions, AutoVar switch operands in 7 contexts (nested switches), AutoVar statements inside poryswitch cases, loops with an AutoVar condition whose body has no command or label-reached statements after a break, each also with line markers on with and without a path; the preamble command, every operand read and every body command are observable events compared on every path",
   "expected preamble text follows the statement rendering rule that C10 checks separately"),
 "C06": (EX, "bounded-exhaustive enumeration of files with inline arguments against a generator-side naming/sharing model",
   "every file with up to N inline text / moves() arguments over 3 owners (incl. a table-first mapscripts layout), 25 datum kinds and 13 contexts, user statements imitating generated names or coming near them, explicit statements with the very contents of the inline arguments, constants named like contents, plus long files with K different arguments for every K up to a bound, mass files (every ending of a long list's last step; 200,000 different texts) and prepared pairs of contents with equal 64-bit digests, three-operand conditions whose operands carry inline data under every operator pair and grouping, and every ordered pair of 24 arguments with near-equal dedupe keys (string types differing in letter case, name+count spellings that coincide) in two scripts, compared with each script compiled alone; argument labels, label contents, sharing, per-owner numbering and clash errors are compared with the generator's expectation",
   "naming rule <owner>_Text_<n> / <owner>_Movement_<n> in order of first appearance is the reference model"),
 "C07": (EX, "bounded-exhaustive enumeration of texts x fonts x every parameter value against an independent token-stream oracle",
   "every atom sequence up to length L (words, multi-byte, control codes, spacing, explicit breaks) x 2 synthetic fonts x every maxLineLength x numLines x cursorOverlap through the exported FormatText, words around one representative of every Unicode category and around the literals of the compiler's own source, words made of backslashes, long texts of K atoms, plus a cross-product of format() spellings compiled end to end under 5 font config files",
   "the oracle's reading of 'line shows the prompt' and 'does not fit' is stated in DESIGN.md C07"),
 "C08": (EX, "bounded-exhaustive enumeration of mapscripts statements with a differential oracle (inline body vs. the same body as a script statement)",
   "every mapscripts statement with up to N entries over plain / inline (12 body kinds) / table entries and label entries naming sibling inline scripts, also with all dispensable white space removed, on one line with line markers, next to a script that defines the labels its entries name, with keyword and operator-led table values, plus tables and headers of K entries for every K up to a bound; header, tables and terminators are compared with the generator's expectation and every inline script with the standalone compilation of its body (hoisted labels compared by the data they denote)",
   "behaviour of script statements themselves is C01's business"),
 "C09": (EX, "bounded-exhaustive enumeration of string contents x part splits x types x origins",
   "every content up to length L over 13 characters split into 1-3 parts in 4 layouts (incl. a file with Windows line ends), 5 string types, 17 origins (text statement, inline, format(), poryswitch cases, AutoVar conditions, after colliding spellings), constants named like the content, a dictionary sweep and texts of K parts for every K up to a bound; directives, per-line payloads and the single terminator are compared with the generator's expectation",
   "format() origins use the exported FormatText for the line split and, independently of it, demand that every directive but the last ends in a line-break escape and that the words are the words of the content"),
 "C10": (EX, "bounded-exhaustive enumeration of argument token sequences against the generator's rendering",
   "every in-domain argument token sequence up to length L over a 26-token alphabet, 11 command names, 14 contexts, compile switches named like the names and arguments, prepared pairs of texts with equal 64-bit digests, a dictionary sweep of names and arguments, commands with K arguments and stretches of K commands for every K up to a bound; the whole emitted file is compared byte for byte",
   "domain: no empty arguments, inline data only as whole arguments"),
 "C12": (EX, "bounded-exhaustive metamorphic enumeration: poryswitch program vs. the program with the selected case written out",
   "every poryswitch with 1-3 case labels in every order, colon/brace forms, every content assignment incl. nested poryswitches and continue, in 9 positions x 7 switch values (incl. empty and padded ones), K cases and K elements before a list poryswitch for every K up to a bound, files of N statements that each hold a poryswitch, a dictionary sweep of labels / values / keys, and every program of the control-flow families moved into selected cases; outputs compared byte for byte with generator-side selection",
   "selection rule (matching label, else '_') is the generator's"),
 "C13": (EX, "metamorphic enumeration over definition sets x use sites with line markers on",
   "17 definition sets x every single use site, every pair and triple (thorough: quadruple) and all sites at once over 34 documented positions + 9 non-positions + use before (and again after) the definition + redefinition, compile switches named like the constants, a dictionary sweep of names and values, constant chains and trees for every size up to a bound, and every program of the control-flow families with operands written as constants; outputs compared byte for byte incl. line markers",
   "values with parentheses / non-identifiers are only used where they can be written out literally"),
 "C14": (EX, "bounded-exhaustive enumeration of movement and mart lists against the generator's expansion",
   "every movement list up to L elements over 43 element kinds (steps x multipliers incl. boundary and invalid ones, poryswitch segments) in statement and moves() form, every mart list up to M items, every multiplier 1..10005, lists of K elements, a dictionary sweep of step and item names, lists with several 9999-fold elements, files that hold statements named like the steps and items, two moves() in one command, and mass files (every moves() list of 6 steps over 8 names; every ending of a 41-step list's last step)",
   "expected expansion is computed by the generator"),
 "C15": (EX, "exhaustive finite product of statement kinds x scope modifiers x generated label kinds",
   "3^5 modifier assignments x label modifier x 14 statement orders x optimize x poryswitch alternatives x 3 name sets, names that differ only in letter case, each file also with line markers and a path containing colons, and on one source line with line markers; every label definition of the output is classified by the naming scheme and checked against the documented scope; a second script named like a sub-label of the first; plus a dictionary sweep of names and every program of the control-flow families under every script modifier",
   "naming scheme identifies generated labels"),
 "C16": (EX, "bounded-exhaustive layout enumeration over a construct corpus with a position-map oracle",
   "11 corpus programs covering every marker-emitting construct x every layout with up to k inserted line breaks / blank lines / comments (shaped like preprocessor line markers) x 4 alternating paths, baselines with Windows line ends; transparency, path, and marker line within the construct's source extent; transparency and marker range also over the control-flow and data program families and for programs after K blank lines",
   "the extent reading of 'line on which the construct was written' is stated in DESIGN.md C16"),
 "C17": (MC, "deviation-bounded schedule exploration over instrumented map iterations + exhaustive bounded history enumeration + context enumeration",
   "every range-over-map of the repository is routed through a scheduler by an overlay generated at check time; all schedules with <= d deviating choice points, every history of <= k compilations (options, fonts and paths changing; one input is not valid UTF-8 and ends in a recovered lexer panic) vs. fresh-process baselines, every statement of an 18-statement family among <= m neighbours (incl. poryswitch-selected data, dictionary texts and fonts with and without numLines), every scaled, mixed-nest and family program alone vs. next to neighbour files, files with N statements of every data kind and N scripts of every statement template vs. the statements alone",
   "assumes map iteration order and process history are the compiler's only nondeterminism (no goroutines / clocks / randomness in the code)"),
 "C18": (EX, "bounded-exhaustive token-sequence, deviation and character-string enumeration in watchdog-supervised worker subprocesses",
   "every token sequence up to L after 29 context prefixes, every single deviation of 12 seed programs (thorough: pairs), every sequence of constant definitions, every integer up to a bound and around 2^31..2^64 at every numeric position, scaled programs and mixed nests, text literals of every length up to 2100 bytes, long multi-byte tokens where another token is expected, poryswitch cases and block statements nested alternately up to 48 deep, format() of every short string over braces, every character string up to N over 24 characters, each under a covering set of configurations (incl. a dictionary-keyed command config) in normal and lint mode; panics, hangs, worker deaths, unlocated errors and lint/normal disagreement are violations",
   "covering set of configurations rather than the full matrix; hang = no progress for 10 s confirmed alone"),
 "C19": (EX, "bounded-exhaustive character-string and lexeme-sequence enumeration with generator-free position and gap-variation oracles",
   "every string up to N characters over 20 characters and every sequence up to M lexemes of a 67-lexeme alphabet in 5 layouts, one representative of every Unicode category and the runes whose low byte is an ASCII character (incl. the fullwidth forms) in 9 lexical contexts, tokens at far lines / columns: every token's reported position must locate its lexeme, only white space and comments may lie between tokens, replacing any gap between tokens by any of 16 separators must keep the token sequence, and lexeme sequences whose neighbours cannot run together must lex the same without blanks; corpus, control-flow and data family programs must compile to the same output under 5 layout rewrites",
   "lexeme of STRING / RAWSTRING found by a small independent scanner"),
 "C20": (EX, "exhaustive enumeration of nesting chains x injections with a line oracle",
   "every nesting chain up to depth d (and deep chains up to a bound) under 3 roots x 59 injections, enumerated constant redefinitions (self-named and cyclic ones included), text / movement names equal to generated labels of 9 owners, plus name-clash programs derived from the compiler's own output for every placement of the label; each ill-formed program must be rejected with the error on the offending line",
   "one statement per line identifies the construct"),
}
ENGINE_PROPS = sorted(CHECKS)
def main():
    checks = []
    for pid in sorted(CHECKS):
        level, technique, text, note = CHECKS[pid]
        checks.append({
            "property_id": pid,
            "quick_cmd": "./run.sh %s quick" % pid,
            "thorough_cmd": "./run.sh %s thorough" % pid,
            "evidence_file": "/verif/evidence/%s.json" % pid,
            "replay_cmd_template": "./bin/pmc replay {path}",
            "engine": "pmc",
            "level_claimed": {"category": level, "text": text, "design_ref": "DESIGN.md section 4, " + pid},
            "level_note": note,
            "technique": technique,
        })
    na = [{"property_id": "C%02d" % i, "reason": "check not built yet (work in progress; DESIGN.md section 9 gives the build order)"}
          for i in range(1, 21) if "C%02d" % i not in CHECKS]
    m = {
        "version": 1,
        "setup_cmd": "cd /verif/mc && GOFLAGS=-mod=mod GOPROXY=off GOSUMDB=off GOTOOLCHAIN=local go build -o ../bin/pmc ./cmd/pmc",
        "hooks": {"guard": "verifsched",
                  "enable": "no hook is committed to /repo (source_commits is empty): checks link the real packages through a go.mod replace (=> /repo); C17's map-iteration scheduler is generated from the current tree at check time by mc/internal/instr and compiled with `go build -tags verifsched -overlay <scratch>/overlay.json ./cmd/sched`; the tag guards only harness code",
                  "baseline_off_cmd": "cd /repo && GOFLAGS=-mod=mod GOPROXY=off go test -vet=off -count=1 ./...",
                  "source_commits": [], "add_only": True},
        "engines": [{"name": "pmc", "path": "/verif/mc", "serves_properties": ENGINE_PROPS,
                     "kind_free_text": "hand-written bounded-exhaustive explorer in Go (stdlib only): count/unrank program enumerators, abstract Gen-3 control machine, explicit-state product search, deviation-bounded enumerators"}],
        "checks": checks,
        "not_applicable": na,
        "notes": "run.sh rebuilds the harness against /repo's working tree on every invocation; known_findings.txt lists fixed defects (fixed: entries suppress nothing).",
    }
    json.dump(m, open(os.path.join(ROOT, "MANIFEST.json"), "w"), indent=1)
if __name__ == "__main__":
    main()
