#!/usr/bin/env python3
"""usage: matrix.py <out.json> <patch.diff>...  — for every patch: scratch copy of the harness bound to a scratch
worktree of /repo with the patch applied (neither /repo nor /verif is touched), every check's quick tier, result matrix.
Scratch directories are removed after each patch."""
import os, subprocess, sys, json, re, shutil, tempfile
ENV = dict(os.environ, GOFLAGS="-mod=mod", GOPROXY="off", GOSUMDB="off", GOTOOLCHAIN="local")
def sh(cmd, cwd, env=ENV): return subprocess.run(cmd, shell=True, cwd=cwd, env=env, capture_output=True, text=True, errors="replace")
out = sys.argv[1]; patches = sys.argv[2:]
matrix = json.load(open(out)) if os.path.exists(out) else {}
for patch in patches:
    name = os.path.basename(os.path.dirname(patch)) if os.path.basename(patch) == "patch.diff" else os.path.basename(patch)[:-5]
    if name in matrix and not os.environ.get("MX_CHECKS"): continue
    base = tempfile.mkdtemp(prefix="pmc-mx-")
    repo = os.path.join(base, "repo"); root = os.path.join(base, "verif")
    try:
        sh(f"git worktree add -q --detach {repo} HEAD", "/repo")
        a = sh(f"git apply {os.path.abspath(patch)}", repo)
        if a.returncode != 0: matrix[name] = {"error": "patch does not apply"}; continue
        os.makedirs(root)
        shutil.copytree(os.environ.get("MX_MC", "/verif/mc"), os.path.join(root, "mc"))
        shutil.copy("/verif/known_findings.txt", root)
        gm = os.path.join(root, "mc", "go.mod"); s = open(gm).read().replace("=> /repo", "=> " + repo); open(gm, "w").write(s)
        b = sh("go build -o ../bin/pmc ./cmd/pmc", os.path.join(root, "mc"))
        if b.returncode != 0: matrix[name] = {"error": "harness does not build: " + b.stderr[-300:]}; continue
        env = dict(ENV, PMC_ROOT=root, PMC_REPO=repo)
        row = {}
        only = os.environ.get("MX_CHECKS", "").split()
        for cid in sh("./bin/pmc list", root).stdout.split():
            if only and cid not in only and not (only == ["target"] and cid == name[:3]):
                continue
            r = sh(f"nice -n 5 ./bin/pmc check {cid} quick", root, env)
            row[cid] = {"exit": r.returncode, "violations": len(re.findall(r"^VIOLATION", r.stdout, re.M)), "sigs": sorted(set(re.findall(r"sig=(\S+)", r.stdout)))[:4]}
        matrix[name] = row
        print(name, " ".join(f"{c}" for c, v in row.items() if v["exit"] == 1), flush=True)
    finally:
        sh(f"git worktree remove --force {repo}", "/repo")
        shutil.rmtree(base, ignore_errors=True)
        json.dump(matrix, open(out, "w"), indent=1)
