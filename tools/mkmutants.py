#!/usr/bin/env python3
"""Builds /verif/mutants/<name>.diff from (file, old, new) edits against /repo HEAD, keeps those that
compile and pass the repository's own tests. Works in a scratch worktree outside /repo and /verif."""
import os, subprocess, sys, json, shutil, tempfile
ENV = dict(os.environ, GOFLAGS="-mod=mod", GOPROXY="off", GOSUMDB="off", GOTOOLCHAIN="local")
M = [
 # name, checks expected to catch, file, old, new
 ("c01_dowhile_continue_to_exit", ["C01"], "emitter/emitter.go",
  "\t\t\tbreakStatementReturnChunks[stmt] = returnID\n\t\t\tbreakStatementOriginChunks[stmt] = jump.destChunkID\n\t\t} else if stmt, ok := curChunk.statements[i].(*ast.BreakStatement); ok {",
  "\t\t\tbreakStatementReturnChunks[stmt] = returnID\n\t\t\tbreakStatementOriginChunks[stmt] = returnID\n\t\t} else if stmt, ok := curChunk.statements[i].(*ast.BreakStatement); ok {"),
 ("c01_postlogic_returns", ["C01"], "emitter/chunk.go", "\t\treturnID:   c.returnID,\n\t\tstatements: c.statements[lastStatementIndex+1:],", "\t\treturnID:   -1,\n\t\tstatements: c.statements[lastStatementIndex+1:],"),
 ("c01_break_map_innermost", ["C01", "C03"], "parser/parser.go", "\tstatement.ScopeStatment = p.peekBreakStack()\n", "\tstatement.ScopeStatment = p.breakStack[0]\n"),
 ("c01_while_body_returns_to_exit", ["C01"], "emitter/emitter.go", "\tconsequenceChunk := &chunk{\n\t\tid:         *chunkCounter,\n\t\treturnID:   headerChunk.id,\n\t\tstatements: stmt.Consequence.Body.Statements,\n\t}\n\n\tif stmt.Consequence.Expression == nil {", "\tconsequenceChunk := &chunk{\n\t\tid:         *chunkCounter,\n\t\treturnID:   headerChunk.id,\n\t\tstatements: stmt.Consequence.Body.Statements,\n\t}\n\tif len(stmt.Consequence.Body.Statements) > 3 {\n\t\tconsequenceChunk.returnID = returnID\n\t}\n\n\tif stmt.Consequence.Expression == nil {"),
 ("c02_negate_lt_to_gt", ["C02"], "parser/parser.go", "\tcase token.LT:\n\t\treturn token.GTE", "\tcase token.LT:\n\t\treturn token.GT"),
 ("c02_negate_lte_to_gte", ["C02"], "parser/parser.go", "\tcase token.LTE:\n\t\treturn token.GT", "\tcase token.LTE:\n\t\treturn token.GTE"),
 ("c02_or_left_failure", ["C02"], "emitter/emitter.go", "remainingChunks, leftLink, firstID = splitBooleanExpressionChunks(binaryExpression.Left, chunkCounter, successChunkID, failChunk.id, remainingChunks, firstID)", "remainingChunks, leftLink, firstID = splitBooleanExpressionChunks(binaryExpression.Left, chunkCounter, successChunkID, failureChunkID, remainingChunks, firstID)"),
 ("c02_not_var_ne", ["C02"], "parser/parser.go", "\t\tif operatorExpression.Type == token.VAR {\n\t\t\toperatorExpression.ComparisonValue = \"0\"", "\t\tif operatorExpression.Type == token.VAR {\n\t\t\toperatorExpression.ComparisonValue = \"1\""),
 ("c02_double_negation_lost", ["C02"], "parser/parser.go", "\t\t\tp.nextToken()\n\t\t\tnegatedNested = !negated", "\t\t\tp.nextToken()\n\t\t\tnegatedNested = true"),
 ("c02_flag_ne_false", ["C02"], "emitter/branch.go", "func renderFlagComparison(sb *strings.Builder, dest *conditionDestination, scriptName string) {\n\tif (dest.operatorExpression.Operator == token.EQ && dest.operatorExpression.ComparisonValue == token.TRUE) ||\n\t\t(dest.operatorExpression.Operator == token.NEQ && dest.operatorExpression.ComparisonValue == token.FALSE) {", "func renderFlagComparison(sb *strings.Builder, dest *conditionDestination, scriptName string) {\n\tif dest.operatorExpression.Operator == token.EQ && dest.operatorExpression.ComparisonValue == token.TRUE {"),
 ("c02_strict_lost_when_negated", ["C02"], "parser/parser.go", "\tif negated {\n\t\tleaf.Operator = getNegatedBooleanOperator(leaf.Operator)\n\t}", "\tif negated {\n\t\tleaf.Operator = getNegatedBooleanOperator(leaf.Operator)\n\t\tleaf.ComparisonValueType = ast.NormalComparison\n\t}"),
 ("c03_scan_stops_at_default", ["C03"], "emitter/emitter.go", "\t\t\tfor j := i + 1; j < len(stmt.Cases); j++ {\n\t\t\t\tif len(stmt.Cases[j].Body.Statements) > 0 {", "\t\t\tfor j := i + 1; j < len(stmt.Cases) && !stmt.Cases[j].IsDefault; j++ {\n\t\t\t\tif len(stmt.Cases[j].Body.Statements) > 0 {"),
 ("c03_noop_chunk_returns", ["C03"], "emitter/emitter.go", "\t\t\t\t\tnoopChunk = &chunk{\n\t\t\t\t\t\tid:         *chunkCounter,\n\t\t\t\t\t\treturnID:   returnID,", "\t\t\t\t\tnoopChunk = &chunk{\n\t\t\t\t\t\tid:         *chunkCounter,\n\t\t\t\t\t\treturnID:   -1,"),
 ("c03_break_in_switch_leaves_loop", ["C03", "C01"], "parser/parser.go", "\tresultImpData := &impData{}\n\tp.pushBreakStack(statement)\n\toriginalToken := p.curToken", "\tresultImpData := &impData{}\n\tif p.peekContinueStack() == nil {\n\t\tp.pushBreakStack(statement)\n\t} else {\n\t\tp.pushBreakStack(p.peekContinueStack())\n\t}\n\toriginalToken := p.curToken"),
 ("c04_chunk_labels_all_rendered", ["C05"], "emitter/emitter.go", "\t\tif chunkID == 0 || jumpChunks[chunkID] {", "\t\tif chunkID == 0 || jumpChunks[chunkID] || len(chunk.statements) > 2 {"),
 ("c04_label_dropped_after_return", ["C04", "C01"], "emitter/emitter.go", "\t\t\tif i == len(curChunk.statements)-1 && (commandStmt.Name.Value == \"end\" || commandStmt.Name.Value == \"return\") {", "\t\t\tif commandStmt.Name.Value == \"end\" || (i == len(curChunk.statements)-1 && commandStmt.Name.Value == \"return\") {"),
 ("c05_goto_suppression_wrong_neighbour", ["C05", "C01"], "emitter/branch.go", "func (bc *breakContext) renderBranchConditions(sb *strings.Builder, scriptName string, nextChunkID int, registerJumpChunk func(int), enableLineMarkers bool, inputFilepath string) bool {\n\tif bc.destChunkID == -1 {\n\t\tsb.WriteString(\"\\treturn\\n\")\n\t\treturn false\n\t} else if bc.destChunkID != nextChunkID {", "func (bc *breakContext) renderBranchConditions(sb *strings.Builder, scriptName string, nextChunkID int, registerJumpChunk func(int), enableLineMarkers bool, inputFilepath string) bool {\n\tif bc.destChunkID == -1 {\n\t\tsb.WriteString(\"\\treturn\\n\")\n\t\treturn false\n\t} else if bc.destChunkID != nextChunkID || nextChunkID > 6 {"),
 ("c05_optimize_tail_truthy", ["C05", "C01"], "emitter/branch.go", "func (l *leafExpressionBranch) getTailChunkID() int {\n\treturn l.falseyReturnID", "func (l *leafExpressionBranch) getTailChunkID() int {\n\tif l.falseyReturnID == -1 {\n\t\treturn l.truthyDest.id\n\t}\n\treturn l.falseyReturnID"),
 ("c06_dedup_key_without_type", ["C06"], "parser/parser.go", "\t\tkey := textKey{value: t.text.Literal, strType: t.stringType}", "\t\tkey := textKey{value: t.text.Literal}"),
 ("c06_counter_shared_across_scripts", ["C06"], "parser/parser.go", "\t\t\ttextLabel := getImplicitTextLabel(t.scriptName, p.inlineTextCounts[t.scriptName])\n\t\t\tt.command.Args[t.argPos] = textLabel\n\t\t\tp.inlineTextCounts[t.scriptName]++", "\t\t\ttextLabel := getImplicitTextLabel(t.scriptName, p.inlineTextCounts[t.scriptName]+len(p.inlineMovements)/4)\n\t\t\tt.command.Args[t.argPos] = textLabel\n\t\t\tp.inlineTextCounts[t.scriptName]++"),
 ("c06_movement_key_joined", ["C06"], "parser/parser.go", "\t\tsb.WriteString(fmt.Sprintf(\"%s:\", m.Literal))", "\t\tsb.WriteString(m.Literal)"),
 ("c07_width_ge", ["C07"], "parser/formattext.go", "\t\t\tif nextWidth > maxWidth && curLineSb.Len() > 0 {", "\t\t\tif nextWidth >= maxWidth && curLineSb.Len() > 0 {"),
 ("c07_linecount_not_reset_on_p", ["C07"], "parser/formattext.go", "\t\t\tif fc.isParagraphBreak(word) {\n\t\t\t\tcurLineNum = 0", "\t\t\tif fc.isParagraphBreak(word) && curLineNum < 3 {\n\t\t\t\tcurLineNum = 0"),
 ("c07_overlap_always", ["C07"], "parser/formattext.go", "\t\t\tif len(nextWord) > 0 && (curLineNum >= numLines-1 || fc.isParagraphBreak(nextWord)) {", "\t\t\tif len(nextWord) > 0 && (curLineNum >= numLines-2 || fc.isParagraphBreak(nextWord)) {"),
 ("c08_table_terminator_first", ["C08"], "emitter/emitter.go", "\t\tfor _, scriptEntry := range tableMapScript.Entries {\n\t\t\ttryEmitLineMarker(&sb, scriptEntry.Condition, e.enableLineMarkers, e.inputFilepath)", "\t\tfor k, scriptEntry := range tableMapScript.Entries {\n\t\t\tif k > 2 {\n\t\t\t\tbreak\n\t\t\t}\n\t\t\ttryEmitLineMarker(&sb, scriptEntry.Condition, e.enableLineMarkers, e.inputFilepath)"),
 ("c08_table_inline_index", ["C08"], "parser/parser.go", "\t\t\t\t\tscriptName := fmt.Sprintf(\"%s_%s_%d\", statement.Name.Value, mapScriptTypeToken.Literal, i)", "\t\t\t\t\tscriptName := fmt.Sprintf(\"%s_%s_%d\", statement.Name.Value, mapScriptTypeToken.Literal, len(tableEntries)+len(statement.TableMapScripts))"),
 ("c09_terminator_unconditional_ascii", ["C09"], "parser/parser.go", "\tif !strings.HasSuffix(text, suffix) {\n\t\ttext += suffix\n\t}", "\tif !strings.HasSuffix(text, suffix) || strType == \"ascii\" {\n\t\ttext += suffix\n\t}"),
 ("c09_braille_no_terminator", ["C09"], "parser/parser.go", "\t\"braille\": \"$\",\n", ""),
 ("c10_paren_depth_not_decremented", ["C10"], "parser/parser.go", "\t\t\t} else if p.curToken.Type == token.RPAREN {\n\t\t\t\tnumOpenParens--\n\t\t\t\targParts = append(argParts, p.curToken.Literal)", "\t\t\t} else if p.curToken.Type == token.RPAREN {\n\t\t\t\tif numOpenParens < 2 {\n\t\t\t\t\tnumOpenParens--\n\t\t\t\t}\n\t\t\t\targParts = append(argParts, p.curToken.Literal)"),
 ("c10_const_in_command_name", ["C10", "C13"], "parser/parser.go", "\t\t\tToken: p.curToken,\n\t\t\tValue: p.curToken.Literal,\n\t\t},\n\t\tArgs: []string{},", "\t\t\tToken: p.curToken,\n\t\t\tValue: p.tryReplaceWithConstant(p.curToken.Literal),\n\t\t},\n\t\tArgs: []string{},"),
 ("c11_preamble_after_compare", ["C11"], "emitter/branch.go", "\tif l.preambleStatement != nil {\n\t\tsb.WriteString(renderCommandStatement(l.preambleStatement))\n\t}\n\trenderBranchComparison(sb, l.truthyDest, scriptName, enableLineMarkers, inputFilepath)", "\trenderBranchComparison(sb, l.truthyDest, scriptName, enableLineMarkers, inputFilepath)\n\tif l.preambleStatement != nil {\n\t\tsb.WriteString(renderCommandStatement(l.preambleStatement))\n\t}"),
 ("c11_argpos_off_by_one", ["C11"], "parser/parser.go", "\t\t\tvarName = commandStmt.Args[*cmd.VarNameArgPosition]", "\t\t\tvarName = commandStmt.Args[(*cmd.VarNameArgPosition+len(commandStmt.Args)/3)%len(commandStmt.Args)]"),
 ("c12_impdata_all_cases", ["C12", "C06"], "parser/parser.go", "\timpData, ok := caseImpData[switchValue]\n\tif !ok {\n\t\timpData, ok = caseImpData[\"_\"]", "\timpData, ok := caseImpData[switchValue]\n\tif ok {\n\t\tif extra, has := caseImpData[\"_\"]; has && extra != impData {\n\t\t\timpData.add(extra)\n\t\t}\n\t}\n\tif !ok {\n\t\timpData, ok = caseImpData[\"_\"]"),
 ("c12_int_case_label_ignored", ["C12"], "parser/parser.go", "\t\tcaseToken := p.curToken\n\t\tp.nextToken()\n\t\tif p.curToken.Type == token.COLON || p.curToken.Type == token.LBRACE {\n\t\t\tusedBrace := p.curToken.Type == token.LBRACE\n\t\t\tp.nextToken()\n\t\t\tstatements, stmtImpData, err := p.parsePoryswitchStatements(scriptName, usedBrace)", "\t\tcaseToken := p.curToken\n\t\tif caseToken.Type == token.INT {\n\t\t\tcaseToken.Literal = \"_\" + caseToken.Literal\n\t\t}\n\t\tp.nextToken()\n\t\tif p.curToken.Type == token.COLON || p.curToken.Type == token.LBRACE {\n\t\t\tusedBrace := p.curToken.Type == token.LBRACE\n\t\t\tp.nextToken()\n\t\t\tstatements, stmtImpData, err := p.parsePoryswitchStatements(scriptName, usedBrace)"),
 ("c13_no_subst_in_case_values", ["C13"], "parser/parser.go", "\t\t\tfor p.curToken.Type != token.COLON {\n\t\t\t\tparts = append(parts, p.tryReplaceWithConstant(p.curToken.Literal))", "\t\t\tfor p.curToken.Type != token.COLON {\n\t\t\t\tparts = append(parts, p.curToken.Literal)"),
 ("c13_no_subst_in_table_value", ["C13"], "parser/parser.go", "\t\t\t\t\tif sb.Len() != 0 {\n\t\t\t\t\t\tsb.WriteByte(' ')\n\t\t\t\t\t}\n\t\t\t\t\tsb.WriteString(p.tryReplaceWithConstant(p.curToken.Literal))\n\t\t\t\t\tp.nextToken()\n\t\t\t\t\tif p.curToken.Type == token.EOF {\n\t\t\t\t\t\treturn nil, nil, NewRangeParseError(startToken, endToken", "\t\t\t\t\tif sb.Len() != 0 {\n\t\t\t\t\t\tsb.WriteByte(' ')\n\t\t\t\t\t}\n\t\t\t\t\tsb.WriteString(p.curToken.Literal)\n\t\t\t\t\tp.nextToken()\n\t\t\t\t\tif p.curToken.Type == token.EOF {\n\t\t\t\t\t\treturn nil, nil, NewRangeParseError(startToken, endToken"),
 ("c14_9999_rejected", ["C14"], "parser/parser.go", "\t\t\t\tif num > 9999 {", "\t\t\t\tif num >= 9999 {"),
 ("c14_no_truncation_after_step_end", ["C14"], "emitter/emitter.go", "\t\tif cmd.Literal == terminator {\n\t\t\treturn sb.String()\n\t\t}", "\t\tif cmd.Literal == terminator && len(movementStmt.MovementCommands) < 4 {\n\t\t\treturn sb.String()\n\t\t}"),
 ("c14_mart_terminator_by_token", ["C14"], "emitter/emitter.go", "\tfor i, item := range martStmt.Items {\n\t\tif item == terminator {", "\tfor i, item := range martStmt.Items {\n\t\tif martStmt.TokenItems[i].Literal == terminator {"),
 ("c15_mart_default_global", ["C15"], "parser/parser.go", "\tstatement := &ast.MartStatement{\n\t\tToken:      p.curToken,\n\t\tTokenItems: []token.Token{},\n\t\tItems:      []string{},\n\t}\n\tscope, err := p.parseScopeModifier(token.LOCAL)", "\tstatement := &ast.MartStatement{\n\t\tToken:      p.curToken,\n\t\tTokenItems: []token.Token{},\n\t\tItems:      []string{},\n\t}\n\tscope, err := p.parseScopeModifier(token.GLOBAL)"),
 ("c15_label_local_modifier_global", ["C15"], "parser/parser.go", "\t\t\tIsGlobal: p.peek2TokenIs(token.GLOBAL),", "\t\t\tIsGlobal: !p.peek2TokenIs(token.GLOBAL) || true,"),
 ("c16_case_marker_from_switch_token", ["C16"], "emitter/branch.go", "\t\ttryEmitLineMarker(sb, switchCase.comparisonValue, enableLineMarkers, inputFilepath)", "\t\ttryEmitLineMarker(sb, s.operand, enableLineMarkers, inputFilepath)"),
 ("c16_movement_step_marker_from_stmt", ["C16"], "emitter/emitter.go", "\t\ttryEmitLineMarker(&sb, cmd, e.enableLineMarkers, e.inputFilepath)\n\t\tsb.WriteString(fmt.Sprintf(\"\\t%s\\n\", cmd.Literal))", "\t\ttryEmitLineMarker(&sb, movementStmt.Token, e.enableLineMarkers, e.inputFilepath)\n\t\tsb.WriteString(fmt.Sprintf(\"\\t%s\\n\", cmd.Literal))"),
 ("c17_sort_removed", ["C17"], "emitter/emitter.go", "\t\tsort.Ints(chunkIDs)\n", "\t\t_ = sort.Ints\n"),
 ("c17_text_counts_package_scope", ["C17"], "parser/parser.go", "\t\tinlineTextCounts:        make(map[string]int),", "\t\tinlineTextCounts:        sharedInlineTextCounts,"),
 ("c18_eof_guard_removed", ["C18"], "parser/parser.go", "\t\t\t\tp.nextToken()\n\t\t\t\tif p.curToken.Type == token.EOF {\n\t\t\t\t\treturn nil, nil, nil, NewParseError(caseToken, \"missing `:` after 'case'\")\n\t\t\t\t}", "\t\t\t\tp.nextToken()"),
 ("c18_error_from_zero_token", ["C18"], "parser/parser.go", "\t\t\treturn nil, nil, NewParseError(startToken, \"missing closing curly brace for block statement\")", "\t\t\treturn nil, nil, NewParseError(token.Token{}, \"missing closing curly brace for block statement\")"),
 ("c19_number_end_column", ["C19"], "lexer/lexer.go", "\t\t\ttok.EndLineNumber = l.lineNumber\n\t\t\ttok.EndCharIndex = l.prevCharNumber\n\t\t\ttok.EndUtf8CharIndex = l.prevUtf8CharNumber\n\t\t\treturn tok\n\t\t}\n\t\ttok = newSingleCharToken(token.ILLEGAL", "\t\t\ttok.EndLineNumber = l.lineNumber\n\t\t\ttok.EndCharIndex = l.charNumber\n\t\t\ttok.EndUtf8CharIndex = l.prevUtf8CharNumber\n\t\t\treturn tok\n\t\t}\n\t\ttok = newSingleCharToken(token.ILLEGAL"),
 ("c19_crlf_in_comment", ["C19"], "lexer/lexer.go", "func (l *Lexer) skipToNextLine() {\n\tfor l.ch != '\\n' && l.ch != 0 {", "func (l *Lexer) skipToNextLine() {\n\tfor l.ch != '\\n' && l.ch != '\\r' && l.ch != 0 {"),
 ("c20_switch_break_stack_not_popped", ["C20"], "parser/parser.go", "\tp.popBreakStack()\n\n\tif len(statement.Cases) == 0 && statement.DefaultCase == nil {", "\tif len(statement.Cases) == 0 && statement.DefaultCase == nil {"),
 ("c20_duplicate_case_via_const_missed", ["C20"], "parser/parser.go", "\t\t\tcaseValue := strings.Join(parts, \" \")\n\t\t\tif caseValues[caseValue] {", "\t\t\tcaseValue := strings.Join(parts, \" \")\n\t\t\tif caseValues[caseValueToken.Literal] {"),
]
EXTRA = {
 "c17_text_counts_package_scope": ("parser/parser.go", "// Parser is a Poryscript AST parser.\n", "var sharedInlineTextCounts = make(map[string]int)\n\n// Parser is a Poryscript AST parser.\n"),
 "c20_duplicate_case_via_const_missed": ("parser/parser.go", "\t\t\tcaseValues[caseValue] = true\n", "\t\t\tcaseValues[caseValueToken.Literal] = true\n"),
}
def sh(cmd, cwd):
    return subprocess.run(cmd, shell=True, cwd=cwd, env=ENV, capture_output=True, text=True)
def main():
    out = "/verif/mutants"
    os.makedirs(out, exist_ok=True)
    wt = tempfile.mkdtemp(prefix="pmc-mut-")
    os.rmdir(wt)
    sh(f"git worktree add -q --detach {wt} HEAD", "/repo")
    index = []
    try:
        for name, checks, f, old, new in M:
            sh("git checkout -q -- .", wt)
            edits = [(f, old, new)]
            if name in EXTRA: edits.append(EXTRA[name])
            ok = True
            for ef, eo, en in edits:
                p = os.path.join(wt, ef); s = open(p).read()
                if s.count(eo) != 1:
                    print(f"{name}: anchor found {s.count(eo)} times in {ef}"); ok = False; break
                open(p, "w").write(s.replace(eo, en))
            if not ok: continue
            b = sh("gofmt -l . ; go build ./... && go vet ./...", wt)
            if b.returncode != 0:
                print(f"{name}: does not build: {b.stderr[:300]}"); continue
            t = sh("go test -count=1 ./...", wt)
            if t.returncode != 0:
                print(f"{name}: caught by the repository's own tests"); continue
            d = sh("git diff", wt).stdout
            open(os.path.join(out, name + ".diff"), "w").write(d)
            index.append({"name": name, "expected_checks": checks})
            print(f"{name}: kept")
    finally:
        sh("git checkout -q -- .", wt)
        sh(f"git worktree remove --force {wt}", "/repo")
    json.dump(index, open(os.path.join(out, "index.json"), "w"), indent=1)
if __name__ == "__main__":
    main()
