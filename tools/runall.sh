#!/bin/sh
# usage: tools/runall.sh quick|thorough  — runs every registered check once, prints a summary line per check.
cd "$(dirname "$0")/.."
tier=${1:-quick}
rc=0
ids=$(python3 -c "import json;print(' '.join(c['property_id'] for c in json.load(open('MANIFEST.json'))['checks']))")
for id in $ids; do
  s=$(date +%s)
  ./run.sh $id $tier > /tmp/runall_$id.out 2>&1
  e=$?
  echo "$id exit=$e wall=$(( $(date +%s) - s ))s violations=$(grep -a -c '^VIOLATION' /tmp/runall_$id.out) known=$(grep -a -c '^KNOWN-FINDING' /tmp/runall_$id.out)"
  [ $e -ne 0 ] && rc=1
done
exit $rc
