#!/usr/bin/env python3
"""Writes the prompts for one round of independent seeded changes.
usage: seedprompts.py <round-dir> <suffixes of earlier rounds, e.g. '' b c d>
Each sub-agent gets only this prompt (property text + what earlier changes did) and a scratch worktree."""
import json, sys
root = sys.argv[1]
prev_suffixes = sys.argv[2:]
props = {}
for l in open('/verif/properties.jsonl'):
    p = json.loads(l); props[p['id']] = p
for pid, p in props.items():
    prev = [json.load(open(f'/verif/seeded/{pid}{s}/meta.json')) for s in prev_suffixes]
    prevtxt = "\n".join(f"  - {q['change']} (needed: {q['needs_to_manifest']})" for q in prev)
    txt = f"""You are working in a scratch git worktree of the Go project huderlem/poryscript at {root}/{pid} (Poryscript: a small Go compiler from a high-level scripting language to Gen 3 Pokemon decomp assembly scripts; packages lexer, parser, emitter, ast, token; README.md documents the language). Work ONLY inside {root}/{pid}; do not read or touch /repo, /verif or any other directory under /tmp. There is no network. Every shell call needs: export GOFLAGS=-mod=mod GOPROXY=off GOSUMDB=off GOTOOLCHAIN=local

PROPERTY {pid}: {p['title']}
Statement: {p['statement']}
It is quantified over: {p['quantifier']['text']}

YOUR TASK: make ONE realistic change to the non-test source code (a slip a maintainer could plausibly make while refactoring, optimising or adding a small feature) that BREAKS this property while
 (a) the project still compiles (go build ./... and go vet ./... are clean),
 (b) the existing test suite passes unedited: go test ./... (run it to be sure),
 (c) the breakage is a genuine violation of the property as stated, on valid input whose meaning the README defines, and is HARD TO FIND. Assume a systematic tester that already: tries every small program, every short token sequence and every pair of features; scales each construct up (every statement kind repeated or nested up to 40 times, switches up to 100 cases, long texts, argument lists and tables, every movement multiplier, every integer up to 70000 at every numeric position, positions beyond line / column 65536); compiles mass files (100,000 scripts, 260,000 different moves() lists) so that any 32-bit hash key collides; re-runs every control-flow shape wrapped in poryswitch cases (also empty ones), with operands written as constants or as expressions with + and %, with line markers on (with and without a path), on a single line, one token per line, with all optional white space removed and with comments everywhere (also comments ending in a backslash); uses every string and rune literal of the compiler's own source as command name, argument, constant name and value, text content, step, item, label, case label and command-config key; uses one character of every Unicode category; uses spellings that collide when joined without separator; puts conditions into the second and later inline scripts of a mapscripts statement; compiles files with two or three statements of every kind in every order; tries three font config files, default font / default length options, empty -s values, and command configs with odd keys; and checks that every statement compiles the same alone and next to other statements. The tester also moves every enumeration it has for one property to the neighbouring properties (so a slip already used for another property - constant replacement reaching a place it should not, a dedupe key that ignores the string type, implicit data dropped in a recursive call, a printf format built from input, state kept per top-level statement instead of per script - is caught whichever property it is aimed at). Aim at what that tester would STILL miss. Ideas: behaviour that depends on a COUNT reaching a small threshold other than 64 (3rd / 5th / 10th occurrence of something within one statement); an interaction between TWO data statements (text + text, movement + mart) rather than scripts; a specific combination of format() parameters with font config VALUES (e.g. cursorOverlapWidth equal to a glyph width, maxLineLength equal to a word width); the LAST item of a list or the last case only; nested constructs of DIFFERENT kinds three deep in a particular order (switch in do-while in poryswitch); label names or text contents that differ only by CASE or by a trailing digit; an error reported on the right line but for the wrong program (valid programs rejected only in lint mode or only in normal mode); state that survives from one poryswitch CASE to the next; the first statement of a file or a file that has ONLY data statements.
Earlier colleagues already produced the following changes for this property; yours must use a DIFFERENT mechanism, in a different function, and need a different kind of input from all of them:
{prevtxt}
Then write a DEMONSTRATION: a new Go test file inside the worktree (for example emitter/seeded_demo_test.go, using the public API lexer.New / parser.New / emitter.New the way the existing tests do; the test function name must contain 'Seeded') that FAILS with your change and PASSES on the original code. Verify both directions yourself.
Leave your source change UNCOMMITTED in the worktree (so that `git diff` shows exactly the change) and the demo test as a new untracked file. Do not commit anything.
In your final message report precisely: the file(s) and function(s) changed and what the change does; the exact input / option / sequence needed for the breakage to show; the demo test path and test name; the commands you ran and their results."""
    open(f'{root}/{pid}.prompt', 'w').write(txt)
print("ok")
