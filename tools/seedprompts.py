#!/usr/bin/env python3
"""Writes the prompts for one round of independent seeded changes.
usage: seedprompts.py <round-dir> <suffixes of earlier rounds, e.g. '' b c d>
Each sub-agent gets only this prompt (property text + what earlier changes did) and a scratch worktree."""
import json, sys
root = sys.argv[1]
prev_suffixes = sys.argv[2:]
props = {}
for l in open('/verif/properties.jsonl'):
    p = json.loads(l); props[p['id']] = p
for pid, p in props.items():
    prev = [json.load(open(f'/verif/seeded/{pid}{s}/meta.json')) for s in prev_suffixes]
    prevtxt = "\n".join(f"  - {q['change']} (needed: {q['needs_to_manifest']})" for q in prev)
    txt = f"""You are working in a scratch git worktree of the Go project huderlem/poryscript at {root}/{pid} (Poryscript: a small Go compiler from a high-level scripting language to Gen 3 Pokemon decomp assembly scripts; packages lexer, parser, emitter, ast, token; README.md documents the language). Work ONLY inside {root}/{pid}; do not read or touch /repo, /verif or any other directory under /tmp. There is no network. Every shell call needs: export GOFLAGS=-mod=mod GOPROXY=off GOSUMDB=off GOTOOLCHAIN=local

PROPERTY {pid}: {p['title']}
Statement: {p['statement']}
It is quantified over: {p['quantifier']['text']}

YOUR TASK: make ONE realistic change to the non-test source code (a slip a maintainer could plausibly make while refactoring, optimising or adding a small feature) that BREAKS this property while
 (a) the project still compiles (go build ./... and go vet ./... are clean),
 (b) the existing test suite passes unedited: go test ./... (run it to be sure),
 (c) the breakage is a genuine violation of the property as stated, on valid input, and is HARD TO FIND. Assume a systematic tester that already: tries every small program, every short token sequence and every pair of features; scales each construct up (every statement kind repeated or nested up to 40 times, switches up to 100 cases, long texts, long argument lists, long tables, every movement multiplier, every integer up to 70000 at every numeric position, positions beyond line / column 65536); compiles mass files (100,000 scripts, 260,000 different moves() lists) so that any 32-bit hash key collides; re-runs every control-flow shape wrapped in poryswitch cases, with operands written as constants or as expressions with + and %, with line markers on, on a single line, one token per line, with all optional white space removed and with comments everywhere; uses every string and rune literal that occurs in the compiler's own source (so any sentinel you compare against is in its dictionary) as command name, argument, constant name and value, text content, step, item, label and case label; uses one character of every Unicode category; and uses spellings that collide when joined without separator. Aim at what that tester would STILL miss: a dependence on OPTIONS or configuration contents (font config values, command config, compile switches, default font / line length, optimize x line markers), on the ORDER or NUMBER of top-level statements of different kinds, on what an EARLIER statement left behind in parser or emitter state, a combination of THREE or more different features none of which is rare by itself, an arithmetic boundary computed from two inputs (a width sum, an index derived from two counts), or behaviour on an ERROR path (wrong line, wrong message position, error swallowed).
Earlier colleagues already produced the following changes for this property; yours must use a DIFFERENT mechanism, in a different function, and need a different kind of input from all of them:
{prevtxt}
Then write a DEMONSTRATION: a new Go test file inside the worktree (for example emitter/seeded_demo_test.go, using the public API lexer.New / parser.New / emitter.New the way the existing tests do; the test function name must contain 'Seeded') that FAILS with your change and PASSES on the original code. Verify both directions yourself.
Leave your source change UNCOMMITTED in the worktree (so that `git diff` shows exactly the change) and the demo test as a new untracked file. Do not commit anything.
In your final message report precisely: the file(s) and function(s) changed and what the change does; the exact input / option / sequence needed for the breakage to show; the demo test path and test name; the commands you ran and their results."""
    open(f'{root}/{pid}.prompt', 'w').write(txt)
print("ok")
