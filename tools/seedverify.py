#!/usr/bin/env python3
"""usage: seedverify.py <ID> [<srcdir>]  — collects a sub-agent's seeded change from /tmp/seed/<ID> (or srcdir) into
/verif/seeded/<name>/ (patch.diff + demo test), and confirms in a fresh scratch worktree that (a) it builds and vets,
(b) the repository's own tests pass with it, (c) the demo fails with it, (d) the demo passes without it."""
import os, subprocess, sys, json, shutil, tempfile
ENV = dict(os.environ, GOFLAGS="-mod=mod", GOPROXY="off", GOSUMDB="off", GOTOOLCHAIN="local")
def sh(cmd, cwd): return subprocess.run(cmd, shell=True, cwd=cwd, env=ENV, capture_output=True, text=True)
def main():
    name = sys.argv[1]
    src = sys.argv[2] if len(sys.argv) > 2 else f"/tmp/seed/{name}"
    out = f"/verif/seeded/{name}"
    os.makedirs(out, exist_ok=True)
    patch = sh("git diff", src).stdout
    if not patch.strip(): print("no change in", src); return 1
    open(f"{out}/patch.diff", "w").write(patch)
    demos = [l[3:] for l in sh("git status --short", src).stdout.splitlines() if l.startswith("?? ") and l.endswith("_test.go")]
    for d in demos:
        shutil.copy(os.path.join(src, d), os.path.join(out, os.path.basename(d)))
    wt = tempfile.mkdtemp(prefix="pmc-seedv-"); os.rmdir(wt)
    sh(f"git worktree add -q --detach {wt} HEAD", "/repo")
    res = {}
    try:
        a = sh(f"git apply {out}/patch.diff", wt); res["applies"] = a.returncode == 0
        b = sh("go build ./... && go vet ./...", wt); res["builds_and_vets"] = b.returncode == 0
        t = sh("go test -count=1 ./...", wt); res["repo_tests_pass_with_change"] = t.returncode == 0
        for d in demos: shutil.copy(os.path.join(src, d), os.path.join(wt, d))
        runs = " ".join(sorted({"./" + os.path.dirname(d) for d in demos}))
        f = sh(f"go test -count=1 -run 'Seeded' {runs}", wt); res["demo_fails_with_change"] = f.returncode != 0
        sh(f"git apply -R {out}/patch.diff", wt)
        p = sh(f"go test -count=1 -run 'Seeded' {runs}", wt); res["demo_passes_without_change"] = p.returncode == 0
        res["demo_files"] = demos
        res["demo_cmd"] = f"go test -count=1 -run 'Seeded' {runs}"
    finally:
        sh("git checkout -q -- . ; git clean -fdq", wt)
        sh(f"git worktree remove --force {wt}", "/repo")
    print(json.dumps(res))
    json.dump(res, open(f"{out}/verify.json", "w"), indent=1)
    return 0 if all(v for k, v in res.items() if isinstance(v, bool)) else 1
sys.exit(main())
