#!/usr/bin/env python3
"""usage: trypatch.py <patch.diff> <ID> [<ID>...|all]  — applies the patch to /repo, runs the named checks (quick tier),
reverts /repo, prints one JSON line {check: {exit, violations, sigs}}."""
import os, subprocess, sys, json, re
def sh(cmd, cwd="/verif"): return subprocess.run(cmd, shell=True, cwd=cwd, capture_output=True, text=True, errors="replace")
patch = os.path.abspath(sys.argv[1]); ids = sys.argv[2:]
if ids == ["all"]: ids = sh("./bin/pmc list").stdout.split()
st = sh("git status --short", "/repo").stdout.strip()
if st: print("refusing: /repo is dirty:", st); sys.exit(2)
a = sh(f"git apply {patch}", "/repo")
if a.returncode != 0: print("patch does not apply:", a.stderr); sys.exit(2)
res = {}
try:
    for i in ids:
        r = sh(f"./run.sh {i} quick")
        sigs = sorted(set(re.findall(r"sig=(\S+)", r.stdout)))[:6]
        res[i] = {"exit": r.returncode, "violations": len(re.findall(r"^VIOLATION", r.stdout, re.M)), "sigs": sigs}
        if r.returncode not in (0, 1): res[i]["tail"] = (r.stdout + r.stderr)[-400:]
finally:
    sh("git checkout -- .", "/repo")
print(json.dumps(res))
